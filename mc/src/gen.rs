//! Shared generators: boundary domains per field kind, byte-asymmetric defaults,
//! deviation-bounded products over the RDATA schemas, and packet families.

use crate::refmodel::packet::*;
use crate::refmodel::schema::{self, Comp, Gw, Kind, TypeSchema, Val, SCHEMAS};
use crate::refmodel::{RefName, B};

pub fn b(s: &[u8]) -> B {
    B(s.to_vec())
}

pub fn bytes_n(n: usize, seed: u8) -> B {
    B((0..n).map(|i| seed.wrapping_add((i as u8).wrapping_mul(37)) | if i % 3 == 0 { 0x80 } else { 0 }).collect())
}

pub fn label_n(n: usize, c: u8) -> B {
    B(vec![c; n])
}

/// 255-byte (maximal) name: 63+63+63+61 byte labels
pub fn max_name() -> RefName {
    RefName(vec![label_n(63, b'x'), label_n(63, b'y'), label_n(63, b'z'), label_n(61, b'w')])
}

pub fn name_domain() -> Vec<RefName> {
    vec![
        RefName::root(),
        RefName::txt("a"),
        RefName::txt("a.b"),
        RefName(vec![label_n(63, b'l')]),
        max_name(),
        RefName(vec![b(&[0x00]), b(b"a.b"), b(&[0x5c, 0xc0, 0xff])]),
    ]
}

pub fn default_val(k: Kind, i: usize) -> Option<Val> {
    let i8 = i as u8;
    Some(match k {
        Kind::U8 => Val::U8(0x11 + i8),
        Kind::U16 => Val::U16(0x0102 + 0x0101 * i as u16),
        Kind::U24 => Val::U24(0x010203 + i as u32),
        Kind::U32 => Val::U32(0x0102_0304 + 0x1010_1010 * i as u32),
        Kind::I32 => Val::I32(-0x0102_0304 - i as i32),
        Kind::U48 => Val::U48(0x0102_0304_0506 + i as u64),
        Kind::Fixed(n) => Val::Fixed(B((0..n).map(|j| 0xa0u8.wrapping_add(i8).wrapping_add(j as u8 * 7)).collect())),
        Kind::Name(_) => Val::Name(RefName(vec![b(format!("f{}", i).as_bytes()), b(b"example"), b(b"com")])),
        Kind::Str => Val::Str(b(format!("s{}", i).as_bytes())),
        Kind::Tail => Val::Tail(B(vec![0xde, 0xad, i8])),
        Kind::Strs => Val::Strs(vec![b(format!("txt{}", i).as_bytes())]),
        Kind::Params => Val::Params(vec![(1, b(b"\x02h2")), (3, b(&[0x01, 0xbb]))]),
        Kind::Windows => Val::Windows(vec![(0, b(&[0x40, 0x01])), (1, b(&[0x00, 0x80, 0x01]))]),
        Kind::GwType => return None,
        Kind::Gateway => Val::Gateway(Gw::V4([192, 0, 2, 38])),
    })
}

pub fn default_vals(sch: &TypeSchema) -> Vec<Val> {
    let mut v: Vec<Val> = sch.fields.iter().enumerate().filter_map(|(i, (_, k))| default_val(*k, i)).collect();
    if sch.code == 29 {
        v[0] = Val::U8(0); // LOC version must be 0 to be encodable
    }
    v
}

/// Boundary domain of a field kind. `wide` adds a few more values (thorough tier).
pub fn domain(k: Kind, wide: bool) -> Vec<Val> {
    let mut d = match k {
        Kind::U8 => vec![0u8, 1, 0x7f, 0x80, 0xff].into_iter().map(Val::U8).collect::<Vec<_>>(),
        Kind::U16 => vec![0u16, 1, 0x00ff, 0x0100, 0x7fff, 0x8000, 0xffff, 0x1234].into_iter().map(Val::U16).collect(),
        Kind::U24 => vec![0u32, 1, 0x010203, 0x800000, 0xffffff].into_iter().map(Val::U24).collect(),
        Kind::U32 => {
            vec![0u32, 1, 0x7fff_ffff, 0x8000_0000, 0xffff_ffff, 0x0a0b_0c0d].into_iter().map(Val::U32).collect()
        }
        Kind::I32 => vec![0i32, 1, -1, i32::MIN, i32::MAX, 0x0a0b_0c0d].into_iter().map(Val::I32).collect(),
        Kind::U48 => vec![0u64, 1, 0x0a0b_0c0d_0e0f, 0x8000_0000_0000, 0xffff_ffff_ffff].into_iter().map(Val::U48).collect(),
        Kind::Fixed(n) => vec![
            Val::Fixed(B(vec![0; n])),
            Val::Fixed(B(vec![0xff; n])),
            Val::Fixed(B((1..=n as u8).collect())),
            Val::Fixed(B((0..n).map(|i| if i == 0 { 0x80 } else { 0 }).collect())),
        ],
        Kind::Name(_) => name_domain().into_iter().map(Val::Name).collect(),
        Kind::Str => vec![Val::Str(b(b"")), Val::Str(b(b"x")), Val::Str(b(&[0xff, 0x00])), Val::Str(bytes_n(255, 3))],
        Kind::Tail => vec![Val::Tail(b(b"")), Val::Tail(b(&[0x80])), Val::Tail(b(&[1, 2])), Val::Tail(bytes_n(300, 9))],
        Kind::Strs => vec![
            Val::Strs(vec![b(b"")]),
            Val::Strs(vec![b(b"a")]),
            Val::Strs(vec![b(b"a"), b(b"bc")]),
            Val::Strs(vec![bytes_n(255, 1)]),
            Val::Strs(vec![b(b""), b(b"")]),
            Val::Strs(vec![b(b"k=v"), b(&[0xff, 0xfe]), bytes_n(255, 7)]),
        ],
        Kind::Params => vec![
            Val::Params(vec![]),
            Val::Params(vec![(0, b(b""))]),
            Val::Params(vec![(1, b(b"x")), (2, b(b""))]),
            Val::Params(vec![(65535, bytes_n(300, 5))]),
            Val::Params(vec![(0, b(&[0, 1])), (1, b(b"\x02h3")), (3, b(&[0x1f, 0x90])), (4, b(&[192, 0, 2, 1]))]),
        ],
        Kind::Windows => vec![
            Val::Windows(vec![]),
            Val::Windows(vec![(0, b(&[0x01]))]),
            Val::Windows(vec![(0, b(&[0x62, 0x01])), (1, b(&[0x80]))]),
            Val::Windows(vec![(0, b(&[0x40])), (255, B(vec![0xff; 32]))]),
            Val::Windows(vec![(2, b(&[0, 0, 0x08])), (3, b(&[0x10])), (200, b(&[0x01]))]),
            // a window block with an empty bitmap (representable on the wire, accepted by the parser)
            Val::Windows(vec![(0, b(&[])), (1, b(&[0x40]))]),
            Val::Windows(vec![(7, b(&[]))]),
        ],
        Kind::GwType => vec![],
        Kind::Gateway => vec![
            Val::Gateway(Gw::None),
            Val::Gateway(Gw::V4([0xff, 0, 0x80, 1])),
            Val::Gateway(Gw::V6(B((1..=16).collect()))),
            Val::Gateway(Gw::Domain(RefName::root())),
            Val::Gateway(Gw::Domain(RefName::txt("gw.example"))),
        ],
    };
    if wide {
        match k {
            Kind::U16 => d.extend([0x0201u16, 0xfffe].into_iter().map(Val::U16)),
            Kind::U32 => d.extend([0x0100_0000u32, 0x00ff_ff00].into_iter().map(Val::U32)),
            Kind::Str => d.push(Val::Str(bytes_n(254, 8))),
            Kind::Tail => d.push(Val::Tail(bytes_n(65, 2))),
            Kind::Name(_) => d.push(Val::Name(RefName::txt("x.y.z.w.v"))),
            _ => {}
        }
    }
    d
}

/// Kinds of the value-carrying fields of a schema, in value order.
pub fn val_kinds(sch: &TypeSchema) -> Vec<Kind> {
    sch.fields.iter().map(|(_, k)| *k).filter(|k| *k != Kind::GwType).collect()
}

/// All value tuples of a schema that differ from the defaults in at most `k` fields
/// (k = 0, 1, 2), drawing deviating values from the boundary domains.
pub fn deviations(sch: &TypeSchema, k: usize, wide: bool) -> Vec<Vec<Val>> {
    let base = default_vals(sch);
    let kinds = val_kinds(sch);
    let mut out = vec![base.clone()];
    if k >= 1 {
        for (i, kind) in kinds.iter().enumerate() {
            for v in domain(*kind, wide) {
                if v != base[i] {
                    let mut x = base.clone();
                    x[i] = v;
                    out.push(x);
                }
            }
        }
    }
    if k >= 2 {
        for i in 0..kinds.len() {
            for j in i + 1..kinds.len() {
                for vi in domain(kinds[i], wide) {
                    if vi == base[i] {
                        continue;
                    }
                    for vj in domain(kinds[j], wide) {
                        if vj == base[j] {
                            continue;
                        }
                        let mut x = base.clone();
                        x[i] = vi.clone();
                        x[j] = vj;
                        out.push(x);
                    }
                }
            }
        }
    }
    out
}

/// Full product over the domains (used for schemas with few fields).
pub fn full_product(sch: &TypeSchema, wide: bool) -> Vec<Vec<Val>> {
    let kinds = val_kinds(sch);
    let doms: Vec<Vec<Val>> = kinds.iter().map(|k| domain(*k, wide)).collect();
    let mut out: Vec<Vec<Val>> = vec![vec![]];
    for d in &doms {
        let mut next = Vec::with_capacity(out.len() * d.len());
        for p in &out {
            for v in d {
                let mut x = p.clone();
                x.push(v.clone());
                next.push(x);
            }
        }
        out = next;
    }
    out
}

/// Is this value tuple something the wire format (and the library's writer) can carry?
pub fn vals_wire_representable(sch: &TypeSchema, vals: &[Val]) -> bool {
    for v in vals {
        match v {
            Val::Name(n) | Val::Gateway(Gw::Domain(n)) => {
                if !n.is_wire_valid() {
                    return false;
                }
            }
            Val::Str(s) => {
                if s.0.len() > 255 {
                    return false;
                }
            }
            Val::Strs(ss) => {
                if ss.is_empty() || ss.iter().any(|s| s.0.len() > 255) {
                    return false;
                }
            }
            Val::Params(ps) => {
                if !ps.windows(2).all(|w| w[0].0 < w[1].0) || ps.iter().any(|p| p.1 .0.len() > 65535) {
                    return false;
                }
            }
            Val::Windows(ws) => {
                if !ws.windows(2).all(|w| w[0].0 < w[1].0) || ws.iter().any(|w| w.1 .0.len() > 255) {
                    return false;
                }
            }
            _ => {}
        }
    }
    if sch.code == 29 {
        if let Some(Val::U8(v)) = vals.first() {
            if *v != 0 {
                return false;
            }
        }
    }
    let mut enc = Vec::new();
    schema::encode_vals(sch, vals, &mut enc);
    !enc.is_empty() && enc.len() <= 65535
}

/// Values that are canonical per the type's RFC (stricter than wire-representable): NSEC window
/// bitmaps are 1..=32 octets (RFC 4034 4.1.2).
pub fn vals_rfc_canonical(vals: &[Val]) -> bool {
    vals.iter().all(|v| match v {
        Val::Windows(ws) => ws.iter().all(|w| !w.1 .0.is_empty() && w.1 .0.len() <= 32),
        _ => true,
    })
}

pub const TTLS: [u32; 5] = [0, 1, 0x7fff_ffff, 0x8000_0000, 0xffff_ffff];

pub fn base_rr(sch: &TypeSchema) -> RefRR {
    RefRR {
        name: RefName::txt("owner.example.com"),
        class: 1,
        cache_flush: false,
        ttl: 0x0102_0304,
        rdata: RefRData::Typed { code: sch.code, vals: default_vals(sch) },
    }
}

/// Record family: every type with ≤k deviations in RDATA, plus envelope deviations
/// (owner name, class, cache-flush, TTL), plus unknown-type / NULL / empty-RDATA records.
pub fn record_family(k: usize, wide: bool) -> Vec<RefRR> {
    let mut out = Vec::new();
    for sch in SCHEMAS {
        let base = base_rr(sch);
        for vals in deviations(sch, k, wide) {
            if !vals_wire_representable(sch, &vals) {
                continue;
            }
            let mut r = base.clone();
            r.rdata = RefRData::Typed { code: sch.code, vals };
            out.push(r);
        }
        for c in CLASSES {
            for cf in [false, true] {
                if c == 1 && !cf {
                    continue;
                }
                let mut r = base.clone();
                r.class = c;
                r.cache_flush = cf;
                out.push(r);
            }
        }
        for t in TTLS {
            let mut r = base.clone();
            r.ttl = t;
            out.push(r);
        }
        for n in name_domain() {
            let mut r = base.clone();
            r.name = n;
            out.push(r);
        }
        // empty RDATA under this type code
        let mut r = base.clone();
        r.rdata = RefRData::Empty { code: sch.code };
        out.push(r);
    }
    // opaque content only under codes the library has no typed variant for (opaque bytes under a
    // typed code are not a value of that type; the list adapts when the library grows a type)
    for code in [10u16, 19, 99, 255, 65280, 65535].into_iter().filter(|c| *c == 10 || crate::bind::library_has_no_variant_for(*c)) {
        for data in [&[0x80u8][..], &[1, 2, 3], &bytes_n(300, 4).0[..]] {
            out.push(rr("n.example", null_rdata(code, data)));
        }
        out.push(rr("n.example", RefRData::Empty { code }));
    }
    out
}

pub fn question_family() -> Vec<RefQ> {
    let mut out = Vec::new();
    let mut qtypes: Vec<u16> = schema::supported_codes();
    qtypes.extend([10, 251, 252, 253, 254, 255]);
    for qt in &qtypes {
        out.push(RefQ { name: RefName::txt("q.example.com"), qtype: *qt, qclass: 1, unicast: false });
    }
    for qc in [1u16, 2, 3, 4, 254, 255] {
        for u in [false, true] {
            out.push(RefQ { name: RefName::txt("q.example.com"), qtype: 1, qclass: qc, unicast: u });
        }
    }
    for n in name_domain() {
        out.push(RefQ { name: n, qtype: 255, qclass: 255, unicast: true });
    }
    out
}

pub fn opt_family() -> Vec<RefOpt> {
    vec![
        RefOpt { udp: 1232, version: 0, options: vec![] },
        RefOpt { udp: 0, version: 0, options: vec![(10, b(&[1, 2, 3, 4, 5, 6, 7, 8]))] },
        RefOpt { udp: 0xffff, version: 0xff, options: vec![(0, b(b"")), (0xffff, bytes_n(300, 6)), (1, b(&[0x80]))] },
        RefOpt { udp: 0x0102, version: 0x80, options: vec![(3, b(b"ns1"))] },
    ]
}

/// Option lists with many DISTINCT option codes in one OPT record (an accumulation over codes
/// shows only when hundreds of different ones meet in one message).
pub fn opt_many_codes() -> Vec<RefOpt> {
    let mut out = Vec::new();
    for (n, stride) in [(50usize, 1u16), (100, 7), (256, 1), (300, 211), (1000, 65), (5000, 13)] {
        let options: Vec<(u16, B)> = (0..n).map(|i| ((i as u16).wrapping_mul(stride).wrapping_add(if stride == 1 { 0 } else { 3 }), bytes_n(i % 3, i as u8))).collect();
        out.push(RefOpt { udp: 1232, version: 0, options });
    }
    out
}

/// Header family: every flag subset, named opcodes and rcodes, with and without OPT.
pub fn header_family() -> Vec<RefPacket> {
    let mut out = Vec::new();
    let mut subsets = Vec::new();
    for m in 0..128u16 {
        let mut f = 0;
        for (i, bit) in ALL_FLAGS.iter().enumerate() {
            if m & (1 << i) != 0 {
                f |= bit;
            }
        }
        subsets.push(f);
    }
    for (i, f) in subsets.iter().enumerate() {
        out.push(RefPacket { id: [0, 1, 0x1234, 0xffff][i % 4], flags: *f, ..Default::default() });
    }
    for op in NAMED_OPCODES {
        for rc in NAMED_RCODES {
            for (oi, opt) in [None, Some(0usize), Some(2)].iter().enumerate() {
                if rc > 15 && opt.is_none() {
                    continue; // a 12-bit rcode needs EDNS to be representable
                }
                out.push(RefPacket {
                    id: 0xbeef,
                    flags: subsets[(op as usize * 13 + rc as usize * 7 + oi) % 128],
                    opcode: op,
                    rcode: rc,
                    opt: opt.map(|i| opt_family()[i].clone()),
                    ..Default::default()
                });
            }
        }
    }
    for o in opt_family() {
        out.push(RefPacket { id: 7, opt: Some(o), ..Default::default() });
    }
    out
}

/// Packet space: single-record packets per section over the record family, question packets,
/// header family, and multi-entry packets (0..=n entries per section, types cycling).
pub fn packet_space(k: usize, wide: bool, max_per_section: usize) -> Vec<RefPacket> {
    let recs = record_family(k, wide);
    let qs = question_family();
    let mut out = header_family();
    for (i, r) in recs.iter().enumerate() {
        let mut p = RefPacket { id: i as u16, flags: F_QR, ..Default::default() };
        match i % 3 {
            0 => p.answers.push(r.clone()),
            1 => p.authority.push(r.clone()),
            _ => p.additional.push(r.clone()),
        }
        if i % 5 == 0 {
            p.opt = Some(opt_family()[i % 4].clone());
        }
        out.push(p);
    }
    for (i, q) in qs.iter().enumerate() {
        let mut p = RefPacket { id: i as u16, ..Default::default() };
        p.questions.push(q.clone());
        out.push(p);
    }
    // size family: section counts across the 255/256 byte boundary, RDLENGTHs across 255 / 32767
    for n in [255usize, 256, 257, 300] {
        let mut p = RefPacket { id: n as u16, ..Default::default() };
        for i in 0..n {
            p.questions.push(RefQ { name: RefName(vec![b(format!("q{}", i).as_bytes())]), qtype: 1, qclass: 1, unicast: i % 2 == 0 });
        }
        out.push(p);
        let mut p = RefPacket { id: n as u16, flags: F_QR, ..Default::default() };
        for i in 0..n {
            let r = RefRR { name: RefName(vec![b(format!("r{}", i).as_bytes())]), class: 1, cache_flush: false, ttl: i as u32, rdata: RefRData::Typed { code: 1, vals: vec![Val::U32(i as u32)] } };
            match i % 3 {
                0 => p.answers.push(r),
                1 => p.authority.push(r),
                _ => p.additional.push(r),
            }
        }
        out.push(p);
    }
    for big in [256usize, 32767, 32768, 40000, 65000] {
        let mut p = RefPacket { id: 0xb1b, flags: F_QR, ..Default::default() };
        p.answers.push(rr("big.example", RefRData::Opaque { code: 10, data: bytes_n(big, 3) }));
        p.answers.push(rr("after.example", RefRData::Typed { code: 1, vals: vec![Val::U32(1)] }));
        out.push(p);
        if big <= 40000 {
            let mut p = RefPacket { id: 0xb1c, flags: F_QR, ..Default::default() };
            p.answers.push(rr("big.example", RefRData::Typed { code: 48, vals: vec![Val::U16(257), Val::U8(3), Val::U8(8), Val::Tail(bytes_n(big - 4, 5))] }));
            let n_str = big / 251;
            p.additional.push(rr("txt.example", RefRData::Typed { code: 16, vals: vec![Val::Strs((0..n_str).map(|i| bytes_n(250, i as u8)).collect())] }));
            p.opt = Some(RefOpt { udp: 4096, version: 0, options: vec![(12, bytes_n(big.min(20000), 9))] });
            out.push(p);
        }
    }
    // multi-entry: every shape (nq, na, nn, nr) in 0..=max, records drawn cyclically
    let base: Vec<RefRR> = SCHEMAS.iter().map(base_rr).collect();
    let mut ri = 0usize;
    let mut qi = 0usize;
    let m = max_per_section;
    for nq in 0..=m {
        for na in 0..=m {
            for nn in 0..=m {
                for nr in 0..=m {
                    for with_opt in [false, true] {
                        let mut p = RefPacket { id: 0x4242, flags: F_QR | F_AA, ..Default::default() };
                        for _ in 0..nq {
                            p.questions.push(qs[qi % qs.len()].clone());
                            qi += 1;
                        }
                        for (n, sec) in [(na, 0), (nn, 1), (nr, 2)] {
                            for _ in 0..n {
                                let r = base[ri % base.len()].clone();
                                ri += 1;
                                match sec {
                                    0 => p.answers.push(r),
                                    1 => p.authority.push(r),
                                    _ => p.additional.push(r),
                                }
                            }
                        }
                        if with_opt {
                            p.opt = Some(opt_family()[(nq + na + nn + nr) % 4].clone());
                        }
                        out.push(p);
                    }
                }
            }
        }
    }
    out
}

/// Does a name class demand / allow / forbid compression?
pub fn comp_of(k: Kind) -> Option<Comp> {
    match k {
        Kind::Name(c) => Some(c),
        Kind::Gateway => Some(Comp::Never),
        _ => None,
    }
}

/// Cross family: every typed record with <= k RDATA deviations under every combination of
/// class x cache-flush x TTL (owner name cycling through the name domain), one record per packet,
/// section cycling; plus every ordered pair of base records inside one section and across sections.
pub fn cross_family(k: usize, wide: bool) -> Vec<RefPacket> {
    let mut out = Vec::new();
    let names = name_domain();
    let mut i = 0usize;
    for sch in SCHEMAS {
        for vals in deviations(sch, k, wide) {
            if !vals_wire_representable(sch, &vals) {
                continue;
            }
            for c in CLASSES {
                for cf in [false, true] {
                    for t in TTLS {
                        let r = RefRR {
                            name: names[i % names.len()].clone(),
                            class: c,
                            cache_flush: cf,
                            ttl: t,
                            rdata: RefRData::Typed { code: sch.code, vals: vals.clone() },
                        };
                        let mut p = RefPacket { id: i as u16, flags: F_QR, ..Default::default() };
                        match i % 3 {
                            0 => p.answers.push(r),
                            1 => p.authority.push(r),
                            _ => p.additional.push(r),
                        }
                        if i % 7 == 0 {
                            p.opt = Some(opt_family()[i % 4].clone());
                        }
                        i += 1;
                        out.push(p);
                    }
                }
            }
        }
    }
    let base: Vec<RefRR> = SCHEMAS.iter().map(base_rr).collect();
    for a in &base {
        for b in &base {
            for shape in 0..3 {
                let mut p = RefPacket { id: 0x5150, flags: F_QR | F_RA, ..Default::default() };
                match shape {
                    0 => {
                        p.answers.push(a.clone());
                        p.answers.push(b.clone());
                    }
                    1 => {
                        p.answers.push(a.clone());
                        p.additional.push(b.clone());
                    }
                    _ => {
                        p.authority.push(a.clone());
                        p.additional.push(b.clone());
                        p.opt = Some(opt_family()[1].clone());
                    }
                }
                out.push(p);
            }
        }
    }
    out
}

// ---------------------------------------------------------------------------------------------
// name-sharing space (C03 / C04 / C07 / C11)

/// All names of <= 3 labels over {a, b} (root included): 15 names.
pub fn small_names() -> Vec<RefName> {
    let mut out = vec![RefName::root()];
    let labs = ["a", "b"];
    let mut frontier: Vec<Vec<&str>> = vec![vec![]];
    for _ in 0..3 {
        let mut next = Vec::new();
        for f in &frontier {
            for l in labs {
                let mut x = f.clone();
                x.push(l);
                next.push(x);
            }
        }
        for n in &next {
            out.push(RefName(n.iter().map(|l| b(l.as_bytes())).collect()));
        }
        frontier = next;
    }
    out
}

/// Record kinds carrying names in RDATA: (type code, number of names)
pub const NAME_KINDS: [(u16, usize); 21] = [
    (2, 1),   // NS
    (5, 1),   // CNAME
    (12, 1),  // PTR
    (15, 1),  // MX
    (6, 2),   // SOA
    (14, 2),  // MINFO
    (17, 2),  // RP
    (18, 1),  // AFSDB
    (21, 1),  // RT
    (23, 1),  // NSAP-PTR
    (7, 1),   // MB
    (33, 1),  // SRV
    (35, 1),  // NAPTR
    (36, 1),  // KX
    (46, 1),  // RRSIG
    (47, 1),  // NSEC
    (45, 1),  // IPSECKEY (domain gateway)
    (64, 1),  // SVCB
    (65, 1),  // HTTPS
    (1, 0),   // A (no names)
    (16, 0),  // TXT
];

/// RDATA of the given kind with its name fields set from `names` (cyclically).
pub fn rdata_with_names(code: u16, names: &[RefName]) -> RefRData {
    let sch = schema::schema(code).unwrap();
    let mut vals = default_vals(sch);
    let mut ni = 0usize;
    for v in vals.iter_mut() {
        match v {
            Val::Name(n) => {
                *n = names[ni % names.len().max(1)].clone();
                ni += 1;
            }
            Val::Gateway(g) => {
                *g = Gw::Domain(names[ni % names.len().max(1)].clone());
                ni += 1;
            }
            _ => {}
        }
    }
    RefRData::Typed { code, vals }
}

/// One packet of the sharing space: question(n0), answer owner n1 with `kind` RDATA over
/// (n2[, n3]), additional A record owned by n3; with 5 slots an authority NS record owner n4 -> n0.
pub fn sharing_packet(kind: u16, nnames: usize, slots: &[RefName]) -> RefPacket {
    let mut p = RefPacket { id: 0x7e57, flags: F_QR | F_AA, ..Default::default() };
    p.questions.push(RefQ { name: slots[0].clone(), qtype: 255, qclass: 1, unicast: false });
    let rd_names: Vec<RefName> = if nnames >= 2 { vec![slots[2].clone(), slots[3].clone()] } else { vec![slots[2].clone()] };
    p.answers.push(RefRR { name: slots[1].clone(), class: 1, cache_flush: false, ttl: 60, rdata: if nnames == 0 { RefRData::Typed { code: kind, vals: default_vals(schema::schema(kind).unwrap()) } } else { rdata_with_names(kind, &rd_names) } });
    if slots.len() >= 5 {
        p.authority.push(RefRR { name: slots[4].clone(), class: 1, cache_flush: false, ttl: 61, rdata: rdata_with_names(2, &[slots[0].clone()]) });
    }
    p.additional.push(RefRR { name: slots[3].clone(), class: 1, cache_flush: true, ttl: 62, rdata: RefRData::Typed { code: 1, vals: vec![Val::U32(0x0a00_0001)] } });
    p
}

/// Enumerate the sharing space: every kind x every assignment of the 15 small names to the slots.
/// Calls `f(kind index, assignment index, packet)`; returns the number of packets.
pub fn sharing_space_size(nslots: usize) -> u64 {
    NAME_KINDS.len() as u64 * 15u64.pow(nslots as u32)
}

/// Names over {a, A} up to 2 labels: the same letters in different case (7 names).
pub fn case_names() -> Vec<RefName> {
    ["", "a", "A", "a.a", "a.A", "A.a", "A.A"].iter().map(|s| RefName::txt(s)).collect()
}

pub fn case_sharing_size(nslots: usize) -> u64 {
    NAME_KINDS.len() as u64 * 7u64.pow(nslots as u32)
}

pub fn case_sharing_case(nslots: usize, index: u64) -> RefPacket {
    let names = case_names();
    let per = 7u64.pow(nslots as u32);
    let (code, nn) = NAME_KINDS[(index / per) as usize];
    let mut a = index % per;
    let mut slots = Vec::with_capacity(nslots);
    for _ in 0..nslots {
        slots.push(names[(a % 7) as usize].clone());
        a /= 7;
    }
    sharing_packet(code, nn, &slots)
}

pub fn sharing_case(nslots: usize, index: u64) -> RefPacket {
    let names = small_names();
    let per = 15u64.pow(nslots as u32);
    let (code, nn) = NAME_KINDS[(index / per) as usize];
    let mut a = index % per;
    let mut slots = Vec::with_capacity(nslots);
    for _ in 0..nslots {
        slots.push(names[(a % 15) as usize].clone());
        a /= 15;
    }
    sharing_packet(code, nn, &slots)
}

/// 16 KiB straddle family: a filler record sized so that the first occurrence of a shared name
/// starts at `first_at`, followed by later uses of that name and of its suffixes.
pub fn straddle_packet(first_at: usize, variant: usize) -> RefPacket {
    // header 12 + root owner 1 + 10 fixed + filler F  => next record starts at 23 + F
    let filler = first_at - 23;
    let shared = RefName::txt("shared.example.com");
    let suffix = RefName::txt("example.com");
    let mut p = RefPacket { id: 0x1640, flags: F_QR, ..Default::default() };
    p.answers.push(RefRR { name: RefName::root(), class: 1, cache_flush: false, ttl: 1, rdata: RefRData::Opaque { code: 10, data: bytes_n(filler, 1) } });
    let later: Vec<RefRR> = match variant % 4 {
        0 => vec![
            RefRR { name: shared.clone(), class: 1, cache_flush: false, ttl: 2, rdata: rdata_with_names(2, &[shared.clone()]) },
            RefRR { name: shared.clone(), class: 1, cache_flush: false, ttl: 3, rdata: rdata_with_names(5, &[suffix.clone()]) },
        ],
        1 => vec![
            RefRR { name: shared.clone(), class: 1, cache_flush: false, ttl: 2, rdata: rdata_with_names(15, &[suffix.clone()]) },
            RefRR { name: suffix.clone(), class: 1, cache_flush: false, ttl: 3, rdata: rdata_with_names(12, &[shared.clone()]) },
            RefRR { name: RefName::txt("com"), class: 1, cache_flush: false, ttl: 4, rdata: rdata_with_names(2, &[RefName::txt("x.shared.example.com")]) },
        ],
        2 => vec![
            RefRR { name: shared.clone(), class: 1, cache_flush: false, ttl: 2, rdata: rdata_with_names(6, &[shared.clone(), suffix.clone()]) },
            RefRR { name: RefName::txt("other.example.com"), class: 1, cache_flush: false, ttl: 3, rdata: rdata_with_names(33, &[shared.clone()]) },
            RefRR { name: shared.clone(), class: 1, cache_flush: false, ttl: 4, rdata: RefRData::Typed { code: 1, vals: vec![Val::U32(7)] } },
        ],
        _ => vec![
            RefRR { name: shared.clone(), class: 1, cache_flush: false, ttl: 2, rdata: RefRData::Typed { code: 1, vals: vec![Val::U32(8)] } },
            RefRR { name: shared.clone(), class: 1, cache_flush: false, ttl: 3, rdata: RefRData::Typed { code: 1, vals: vec![Val::U32(9)] } },
        ],
    };
    for (i, r) in later.into_iter().enumerate() {
        if i % 2 == 0 {
            p.answers.push(r);
        } else {
            p.additional.push(r);
        }
    }
    p
}

/// Messages grown towards 65535 bytes: n filler records of `each` bytes, names shared throughout.
pub fn big_shared_packet(n: usize, each: usize) -> RefPacket {
    let mut p = RefPacket { id: 0xb16, flags: F_QR, ..Default::default() };
    p.questions.push(RefQ { name: RefName::txt("big.example.com"), qtype: 255, qclass: 1, unicast: false });
    for i in 0..n {
        let owner = if i % 2 == 0 { RefName::txt("big.example.com") } else { RefName(vec![b(format!("h{}", i).as_bytes()), b(b"example"), b(b"com")]) };
        p.answers.push(RefRR { name: owner.clone(), class: 1, cache_flush: false, ttl: i as u32, rdata: RefRData::Opaque { code: 10, data: bytes_n(each, i as u8) } });
        p.answers.push(RefRR { name: owner, class: 1, cache_flush: false, ttl: i as u32, rdata: rdata_with_names(2, &[RefName(vec![b(format!("ns{}", i % 3).as_bytes()), b(b"example"), b(b"com")])]) });
    }
    p
}


/// Labels whose lossy rendering puts a multi-byte character at every byte offset up to the label
/// limit (for code that slices or truncates rendered names at fixed byte positions).
pub fn alignment_labels() -> Vec<Vec<u8>> {
    let mut out: Vec<Vec<u8>> = Vec::new();
    for k in 0..=61usize {
        let mut l = vec![b'x'; k];
        l.extend_from_slice("é".as_bytes());
        out.push(l.clone());
        if l.len() + 2 <= 63 {
            l.extend_from_slice("é".as_bytes());
            out.push(l);
        }
    }
    for k in 0..=60usize {
        let mut l = vec![b'x'; k];
        l.extend_from_slice("€".as_bytes());
        out.push(l);
    }
    for k in 0..=3usize {
        for m in [21usize, 30, 63 - k] {
            let mut l = vec![b'x'; k];
            l.extend(std::iter::repeat(0xffu8).take(m.min(63 - k)));
            out.push(l);
        }
    }
    for k in [0usize, 1, 61, 62] {
        let mut l = vec![b'x'; k];
        l.push(0xc3); // a lead byte with nothing after it
        out.push(l);
    }
    out
}


/// Long-name family for compression: names of 240..=255 wire bytes that share suffixes, and deep
/// chains in which every owner extends the previous one by a label (so that decoding the last one
/// follows many pointers).
pub fn long_name_packets() -> Vec<RefPacket> {
    let mut out = Vec::new();
    for last in 40..=61usize {
        // 63 + 63 + 63 + last labels => wire length 3*64 + last + 1 + 1
        let base = RefName(vec![label_n(63, b'p'), label_n(63, b'q'), label_n(63, b'r'), label_n(last, b's')]);
        let suffix = RefName(base.0[1..].to_vec());
        let mut sibling = vec![label_n(62, b'z')];
        sibling.extend(suffix.0.iter().cloned());
        let sibling = RefName(sibling);
        for kind in [2u16, 15, 6, 33] {
            let mut p = RefPacket { id: 0x1009, flags: F_QR, ..Default::default() };
            p.questions.push(RefQ { name: base.clone(), qtype: 255, qclass: 1, unicast: false });
            p.answers.push(RefRR { name: base.clone(), class: 1, cache_flush: false, ttl: 1, rdata: rdata_with_names(kind, &[sibling.clone(), suffix.clone()]) });
            p.answers.push(RefRR { name: base.clone(), class: 1, cache_flush: false, ttl: 2, rdata: RefRData::Typed { code: 1, vals: vec![Val::U32(1)] } });
            p.additional.push(RefRR { name: sibling.clone(), class: 1, cache_flush: false, ttl: 3, rdata: rdata_with_names(12, &[base.clone()]) });
            if sibling.is_wire_valid() && base.is_wire_valid() {
                out.push(p);
            }
        }
    }
    for depth in [20usize, 40, 43, 60, 65, 80, 100, 126] {
        for width in [1usize, 3] {
            if depth * (width + 1) + 1 > 255 {
                continue;
            }
            let mut p = RefPacket { id: 0x1010, flags: F_QR, ..Default::default() };
            let mut name: Vec<B> = Vec::new();
            for i in 0..depth {
                name.insert(0, B(vec![b'a' + (i % 26) as u8; width]));
                let n = RefName(name.clone());
                let r = RefRR { name: n.clone(), class: 1, cache_flush: false, ttl: i as u32, rdata: if i % 2 == 0 { RefRData::Typed { code: 1, vals: vec![Val::U32(i as u32)] } } else { rdata_with_names(5, &[n.clone()]) } };
                p.answers.push(r);
            }
            out.push(p);
        }
    }
    out
}


/// Every value of every 8- and 16-bit field, walking-bit values of wider fields: one tuple per
/// (field, value), all other fields at their defaults. Calls `f(code, vals)`.
pub fn field_sweep(sch: &TypeSchema, f: &mut dyn FnMut(&[Val])) {
    let base = default_vals(sch);
    let kinds = val_kinds(sch);
    for (i, k) in kinds.iter().enumerate() {
        let mut x = base.clone();
        match k {
            Kind::U8 => {
                for v in 0..=255u8 {
                    if sch.code == 29 && i == 0 && v != 0 {
                        continue; // LOC version
                    }
                    x[i] = Val::U8(v);
                    f(&x);
                }
            }
            Kind::U16 => {
                for v in 0..=65535u16 {
                    x[i] = Val::U16(v);
                    f(&x);
                }
            }
            Kind::U24 => {
                for b in 0..24 {
                    x[i] = Val::U24(1 << b);
                    f(&x);
                    x[i] = Val::U24(!(1u32 << b) & 0xff_ffff);
                    f(&x);
                }
            }
            Kind::U32 => {
                for b in 0..32 {
                    x[i] = Val::U32(1 << b);
                    f(&x);
                    x[i] = Val::U32(!(1u32 << b));
                    f(&x);
                }
                for m in magic_u32().into_iter().chain(ladder_u32()) {
                    x[i] = Val::U32(m);
                    f(&x);
                }
            }
            Kind::I32 => {
                for b in 0..32 {
                    x[i] = Val::I32((1u32 << b) as i32);
                    f(&x);
                    x[i] = Val::I32(!(1u32 << b) as i32);
                    f(&x);
                }
                for m in magic_u32().into_iter().chain(ladder_u32()) {
                    x[i] = Val::I32(m as i32);
                    f(&x);
                }
            }
            Kind::U48 => {
                for b in 0..48 {
                    x[i] = Val::U48(1u64 << b);
                    f(&x);
                }
            }
            Kind::Fixed(n) => {
                for b in 0..n * 8 {
                    let mut bytes = vec![0u8; *n];
                    bytes[b / 8] = 0x80 >> (b % 8);
                    x[i] = Val::Fixed(B(bytes));
                    f(&x);
                }
            }
            Kind::Str | Kind::Tail | Kind::Name(_) | Kind::Strs | Kind::Params | Kind::Windows => {
                for v in size_values(*k) {
                    x[i] = v;
                    f(&x);
                }
            }
            Kind::GwType => {}
            Kind::Gateway => {
                for a in magic_v6() {
                    x[i] = Val::Gateway(Gw::V6(B(a.to_vec())));
                    f(&x);
                }
                for m in magic_u32() {
                    x[i] = Val::Gateway(Gw::V4(m.to_be_bytes()));
                    f(&x);
                }
                for v in size_ladder(Kind::Name(Comp::Never)) {
                    if let Val::Name(n) = v {
                        x[i] = Val::Gateway(Gw::Domain(n));
                        f(&x);
                    }
                }
            }
        }
        if let Kind::Fixed(16) = k {
            for a in magic_v6() {
                x[i] = Val::Fixed(B(a.to_vec()));
                f(&x);
            }
        }
    }
}

/// Every size of a variable-size field kind, not only its boundaries: every character-string length
/// 0..=255, every tail length 0..=600 plus a ladder, every label count 1..=127, every label length
/// 1..=63, every total name length, list sizes 1..=70.
pub fn size_values(k: Kind) -> Vec<Val> {
    let mut out = Vec::new();
    match k {
        Kind::Str => {
            for n in 0..=255usize {
                out.push(Val::Str(bytes_n(n, n as u8)));
            }
            for s in dictionary_strings() {
                out.push(Val::Str(b(s.as_bytes())));
            }
        }
        Kind::Tail => {
            for n in (0..=600usize).chain([1000, 1023, 1024, 1025, 2047, 2048, 2049, 4095, 4096, 4097, 5000]) {
                out.push(Val::Tail(bytes_n(n, n as u8)));
            }
        }
        Kind::Name(_) => {
            for nl in 1..=127usize {
                out.push(Val::Name(RefName((0..nl).map(|j| B(vec![b'a' + (j % 26) as u8])).collect())));
            }
            for ll in 1..=63usize {
                out.push(Val::Name(RefName(vec![label_n(ll, b'm'), b(b"example")])));
            }
            // every total wire length 3..=255: 63-byte labels then the remainder
            for wl in 3..=255usize {
                let mut left = wl - 1; // without the root byte
                let mut labels = Vec::new();
                let mut c = b'p';
                while left > 0 {
                    let take = if left >= 66 || left == 64 { 63 } else if left == 65 { 62 } else { left - 1 };
                    labels.push(label_n(take, c));
                    c += 1;
                    left -= take + 1;
                }
                let n = RefName(labels);
                if n.is_wire_valid() && n.wire_len() == wl {
                    out.push(Val::Name(n));
                }
            }
        }
        Kind::Strs => {
            for n in 1..=70usize {
                out.push(Val::Strs((0..n).map(|j| bytes_n(j % 7, j as u8)).collect()));
            }
            for n in [100usize, 128, 129, 255, 256, 257, 300] {
                out.push(Val::Strs((0..n).map(|j| bytes_n(j % 3, j as u8)).collect()));
            }
            for l in [31usize, 32, 33, 63, 64, 65, 127, 128, 129, 253, 254] {
                out.push(Val::Strs(vec![bytes_n(l, 1), bytes_n(l, 2), bytes_n(255 - l, 3)]));
            }
            let d = dictionary_strings();
            for (i, s) in d.iter().enumerate() {
                out.push(Val::Strs(vec![b(s.as_bytes())]));
                out.push(Val::Strs(vec![b(d[(i + 7) % d.len()].as_bytes()), b(s.as_bytes()), b(d[(i + 3) % d.len()].as_bytes())]));
            }
        }
        Kind::Params => {
            for n in 0..=24usize {
                out.push(Val::Params((0..n).map(|j| ((j * 3) as u16, bytes_n(j % 5, j as u8))).collect()));
            }
            // hundreds of distinct keys in one record
            for n in [100usize, 255, 256, 257, 300, 700] {
                out.push(Val::Params((0..n).map(|j| ((j * 91 + 7) as u16, bytes_n(j % 3, j as u8))).collect::<std::collections::BTreeMap<u16, B>>().into_iter().collect()));
            }
            for key in [5u16, 6, 7, 8, 100, 255, 256, 32768, 65279, 65280] {
                out.push(Val::Params(vec![(key, b(&[1, 2]))]));
            }
            // values whose inner lists are not in increasing order, repeated, or oddly sized
            for v in [&[0u8, 4, 0, 1][..], &[0, 6, 0, 4, 0, 1], &[0, 1, 0, 1], &[0, 3, 0, 1, 0, 4, 0], &[0xff, 0xff, 0, 0]] {
                out.push(Val::Params(vec![(0, b(v)), (1, b(b"\x02h2")), (3, b(&[1, 187])), (4, b(&[10, 0, 0, 9, 10, 0, 0, 1]))]));
            }
            out.push(Val::Params(vec![(1, b(b"\x08http/1.1\x02h2\x02H3")), (6, B([magic_v6()[3], magic_v6()[2]].concat()))]));
            out.push(Val::Params(vec![(4, b(&[255, 255, 255, 255, 0, 0, 0, 0, 127, 0, 0, 1]))]));
            for l in (0..=70usize).chain([127, 128, 255, 256, 257, 511, 512, 1000]) {
                out.push(Val::Params(vec![(1, bytes_n(l, l as u8)), (7, bytes_n(3, 1))]));
            }
        }
        Kind::Gateway => {
            for a in magic_v6() {
                out.push(Val::Gateway(Gw::V6(B(a.to_vec()))));
            }
            for m in [0u32, 0x7f00_0001, 0xe000_00fb, 0xffff_ffff, 0xa9fe_0001] {
                out.push(Val::Gateway(Gw::V4(m.to_be_bytes())));
            }
        }
        Kind::Fixed(16) => {
            for a in magic_v6() {
                out.push(Val::Fixed(B(a.to_vec())));
            }
        }
        Kind::Windows => {
            for n in 1..=36usize {
                out.push(Val::Windows((0..n).map(|j| ((j * 7) as u8, bytes_n(1 + j % 32, j as u8))).collect()));
            }
            for w in 0..=255u8 {
                out.push(Val::Windows(vec![(w, B(vec![0x55; 1 + (w as usize % 32)]))]));
            }
            // every window present at once, and every second one
            out.push(Val::Windows((0..=255u8).map(|w| (w, B(vec![0x80 >> (w % 8), w]))).collect()));
            out.push(Val::Windows((0..=255u8).step_by(2).map(|w| (w, B(vec![0xff; 32]))).collect()));
            for l in 1..=32usize {
                let mut bm = vec![0u8; l];
                bm[l - 1] = 0x01;
                out.push(Val::Windows(vec![(1, B(bm))]));
            }
        }
        _ => {}
    }
    out
}

/// One record per (schema, variable-size field, size): the full size sweep as records.
pub fn size_sweep_records() -> Vec<RefRR> {
    let mut out = Vec::new();
    for sch in SCHEMAS {
        let base = default_vals(sch);
        for (i, k) in val_kinds(sch).iter().enumerate() {
            for v in size_values(*k) {
                let mut x = base.clone();
                x[i] = v;
                if !vals_wire_representable(sch, &x) || !vals_rfc_canonical(&x) {
                    continue;
                }
                let mut r = base_rr(sch);
                r.rdata = RefRData::Typed { code: sch.code, vals: x };
                out.push(r);
            }
        }
    }
    out
}

/// Names built from labels that DNS software gives a meaning to (special-use domains, reverse
/// mapping, DNS-SD and mDNS conventions, IDNA prefixes): every sequence of <= `max_labels` labels
/// over the dictionary plus the well-known full names.
pub fn dictionary_labels() -> Vec<&'static str> {
    vec![
        "local", "LOCAL", "Local", "arpa", "ARPA", "in-addr", "IN-ADDR", "ip6", "254", "169", "8", "e", "f", "b", "0", "_tcp", "_udp", "_services", "_dns-sd", "_sub", "_http", "localhost", "home", "invalid", "test", "onion",
        "example", "com", "www", "xn--nxasmq6b", "*", "_", "My\\032Printer", "\\065", "\\046", "a\\.b", "\\255x", "\\256", "My Printer", "a b",
    ]
}

/// Text with a multi-byte character (or an invalid byte) at every byte offset 0..=24: a run of
/// ASCII, then e-acute / euro sign / an emoji / 0xff / a lone lead byte, then a short tail.
pub fn alignment_strings() -> Vec<Vec<u8>> {
    let mut out = Vec::new();
    for k in 0..=24usize {
        for mid in [&"é".as_bytes()[..], "€".as_bytes(), "😀".as_bytes(), &[0xff][..], &[0xc3][..]] {
            for tail in [&b""[..], b"gh", b"@example.org"] {
                let mut s = vec![b'a' + (k % 26) as u8; k];
                s.extend_from_slice(mid);
                s.extend_from_slice(tail);
                out.push(s);
            }
        }
    }
    out
}

/// EDNS option payloads with an inner structure (family / prefix / address as in RFC 7871,
/// length-prefixed as in other options): for every assigned option code 0..=20 and 65001,
/// payloads of every length 0..=24 starting with 00 01 / 00 02 / 00 00 / ff ff and a third byte
/// from a set of prefix lengths.
pub fn structured_options() -> Vec<(u16, B)> {
    let mut out = Vec::new();
    for code in (0u16..=20).chain([65001u16]) {
        for len in 0..=24usize {
            for head in [[0u8, 1], [0, 2], [0, 0], [0xff, 0xff]] {
                for third in [0u8, 1, 7, 8, 19, 20, 24, 32, 33, 60, 64, 128, 129, 255] {
                    // the full product for the client-subnet code and its neighbours, a diagonal otherwise
                    if !(7..=9).contains(&code) && (len + third as usize + head[1] as usize) % 5 != 0 {
                        continue;
                    }
                    let mut d: Vec<u8> = Vec::with_capacity(len);
                    for i in 0..len {
                        d.push(match i {
                            0 => head[0],
                            1 => head[1],
                            2 => third,
                            3 => 0,
                            _ => 0xc0u8.wrapping_add(i as u8 * 7),
                        });
                    }
                    out.push((code, B(d)));
                }
            }
        }
    }
    out
}

pub fn dictionary_names(max_labels: usize) -> Vec<RefName> {
    let d = dictionary_labels();
    let mut out: Vec<RefName> = vec![RefName::root()];
    let mut level: Vec<Vec<&str>> = vec![vec![]];
    for _ in 0..max_labels {
        let mut next = Vec::new();
        for p in &level {
            for l in &d {
                let mut q = p.clone();
                q.push(*l);
                out.push(RefName(q.iter().map(|x| b(x.as_bytes())).collect()));
                next.push(q);
            }
        }
        level = next;
    }
    for full in [
        "254.169.in-addr.arpa", "1.254.169.in-addr.arpa", "4.3.2.1.in-addr.arpa", "1.0.0.127.in-addr.arpa", "8.e.f.ip6.arpa", "9.e.f.ip6.arpa", "a.e.f.ip6.arpa", "b.e.f.ip6.arpa", "0.8.e.f.ip6.arpa",
        "b._dns-sd._udp.local", "db._dns-sd._udp.local", "r._dns-sd._udp.local", "lb._dns-sd._udp.local", "_services._dns-sd._udp.local", "_printer._sub._http._tcp.local", "My Printer._ipp._tcp.local", "local.local", "local.com",
        "com.local.", "1.0.0.0.0.0.0.0.0.0.0.0.0.0.0.0.0.0.0.0.0.0.0.0.0.0.0.0.0.0.0.0.ip6.arpa",
    ] {
        out.push(RefName::txt(full.trim_end_matches('.')));
    }
    out
}

/// Values that can be held in memory but are not in RFC order (NSEC windows out of order): the
/// writers normalise them; both serialisations must agree on the result. Not for checks that
/// compare with the reference packet itself.
pub fn noncanonical_packets() -> Vec<RefPacket> {
    let mut out = Vec::new();
    let orders: Vec<Vec<u8>> = vec![vec![1, 0], vec![2, 0, 1], vec![0, 255, 1], vec![255, 254, 3, 0], vec![5, 4]];
    for order in orders {
        for next in ["host.local", "local", "next.example.com", "a.b.c.local"] {
            for owner in ["host.local", "example.com"] {
                let mut p = RefPacket { id: 0x6e5c, flags: F_QR | F_AA, ..Default::default() };
                p.questions.push(RefQ { name: RefName::txt(owner), qtype: 47, qclass: 1, unicast: false });
                let wins: Vec<(u8, B)> = order.iter().map(|w| (*w, B(vec![0x40 >> (*w % 3), 0x01]))).collect();
                p.answers.push(RefRR { name: RefName::txt(owner), class: 1, cache_flush: true, ttl: 120, rdata: RefRData::Typed { code: 47, vals: vec![Val::Name(RefName::txt(next)), Val::Windows(wins)] } });
                p.additional.push(RefRR { name: RefName::txt(next), class: 1, cache_flush: false, ttl: 120, rdata: RefRData::Typed { code: 1, vals: vec![Val::U32(0x0a000001)] } });
                out.push(p);
            }
        }
    }
    out
}

/// Messages beyond 64 KiB: the reference encodings (plain and compressed) of the large-record
/// packets, and messages whose sections together hold more than 65535 records (each count a
/// legal 16-bit value).
pub fn large_messages() -> Vec<Vec<u8>> {
    let mut out = Vec::new();
    for p in many_and_sized_packets() {
        let plain = p.encode(0);
        if plain.len() > 30000 {
            out.push(p.encode_compressed(0, true));
            out.push(plain);
        }
    }
    for (an, ns, ar) in [(65535usize, 0usize, 1usize), (40000, 30000, 0), (30000, 30000, 30000), (65535, 65535, 65535), (1, 65535, 65535), (65535, 1, 0)] {
        for compressed in [false, true] {
            let mut m: Vec<u8> = vec![0x4c, 0x4d, 0x84, 0x00, 0, 1];
            m.extend_from_slice(&(an as u16).to_be_bytes());
            m.extend_from_slice(&(ns as u16).to_be_bytes());
            m.extend_from_slice(&(ar as u16).to_be_bytes());
            m.extend_from_slice(&[1, b'q', 0, 0, 1, 0, 1]);
            for i in 0..an + ns + ar {
                if compressed {
                    m.extend_from_slice(&[0xc0, 12]);
                } else {
                    m.extend_from_slice(&[1, b'q', 0]);
                }
                m.extend_from_slice(&[0, 1, 0, 1]);
                m.extend_from_slice(&(i as u32).to_be_bytes());
                m.extend_from_slice(&[0, 4]);
                m.extend_from_slice(&(0x0a00_0000u32 + i as u32).to_be_bytes());
            }
            out.push(m);
        }
    }
    // the question count at its last value: 65535 questions (names in full and as pointers)
    for compressed in [false, true] {
        let mut m: Vec<u8> = vec![0x4c, 0x4f, 0x00, 0x00, 0xff, 0xff, 0, 1, 0, 0, 0, 0];
        for i in 0..65535usize {
            if compressed && i > 0 {
                m.extend_from_slice(&[0xc0, 12]);
            } else {
                m.extend_from_slice(&[1, b'q', 0]);
            }
            m.extend_from_slice(&[0, [1u8, 28, 16, 255][i % 4], 0, 1]);
        }
        m.extend_from_slice(&[0xc0, 12, 0, 1, 0, 1, 0, 0, 0, 9, 0, 4, 10, 0, 0, 1]);
        out.push(m);
    }
    // a full additional section whose last / first / middle entry is the OPT record
    for opt_at in [0usize, 30000, 65534] {
        let mut m: Vec<u8> = vec![0x4c, 0x4e, 0x84, 0x00, 0, 1, 0, 0, 0, 0, 0xff, 0xff];
        m.extend_from_slice(&[1, b'q', 0, 0, 1, 0, 1]);
        for i in 0..65535usize {
            if i == opt_at {
                m.extend_from_slice(&[0, 0, 41, 0x04, 0xd0, 0, 0, 0, 0, 0, 0]);
                continue;
            }
            m.extend_from_slice(&[0xc0, 12, 0, 1, 0, 1]);
            m.extend_from_slice(&(i as u32).to_be_bytes());
            m.extend_from_slice(&[0, 4]);
            m.extend_from_slice(&(0x0a00_0000u32 + i as u32).to_be_bytes());
        }
        out.push(m);
    }
    out
}

/// Every ordered pair of record types (base records, with shared names so that compression has
/// something to do), in three section shapes; and triples (a, b, a) in one section.
pub fn type_pair_packets() -> Vec<RefPacket> {
    let base: Vec<RefRR> = SCHEMAS.iter().map(base_rr).collect();
    let mut out = Vec::new();
    // a signature record next to the record set it covers (same owner and class, type_covered =
    // the other record's type), the covered record twice so that its RDATA names repeat
    if let Some(sig) = base.iter().find(|r| r.rdata.code() == 46) {
        for b in base.iter() {
            if b.rdata.code() == 46 {
                continue;
            }
            for sig_first in [false, true] {
                let mut s = sig.clone();
                s.name = b.name.clone();
                s.class = b.class;
                if let RefRData::Typed { vals, .. } = &mut s.rdata {
                    vals[0] = Val::U16(b.rdata.code());
                }
                let mut p = RefPacket { id: 0x7a1e, flags: F_QR | F_AA, ..Default::default() };
                p.questions.push(RefQ { name: b.name.clone(), qtype: b.rdata.code(), qclass: 1, unicast: false });
                if sig_first {
                    p.answers.push(s.clone());
                }
                p.answers.push(b.clone());
                p.answers.push(b.clone());
                if !sig_first {
                    p.answers.push(s.clone());
                }
                p.additional.push(b.clone());
                out.push(p);
            }
        }
    }
    for (ia, a) in base.iter().enumerate() {
        for (ib, b) in base.iter().enumerate() {
            let mut p = RefPacket { id: 0x7a1b, flags: F_QR | F_AA, ..Default::default() };
            p.questions.push(RefQ { name: a.name.clone(), qtype: a.rdata.code(), qclass: 1, unicast: false });
            match (ia + ib) % 3 {
                0 => {
                    p.answers.push(a.clone());
                    p.answers.push(b.clone());
                    p.answers.push(a.clone());
                }
                1 => {
                    p.answers.push(a.clone());
                    p.authority.push(b.clone());
                    p.additional.push(a.clone());
                }
                _ => {
                    p.additional.push(a.clone());
                    p.additional.push(b.clone());
                }
            }
            out.push(p);
        }
    }
    out
}

/// Text that software gives a meaning to, in several letter cases: CAA tags, ALPN ids, DNS-SD
/// keys, NAPTR flags and services, SPF, HINFO values.
pub fn dictionary_strings() -> Vec<&'static str> {
    vec![
        "issue", "Issue", "ISSUE", "issuewild", "IssueWild", "ISSUEWILD", "iodef", "ioDef", "IODEF", "contactemail", "h2", "H2", "h3", "http/1.1", "HTTP/1.1", "dot", "txtvers", "TxtVers", "TXTVERS", "txtvers=1", "TXTVERS=1", "path", "Path", "PATH=/", "path=/",
        "u", "U", "s", "S", "a", "A", "p", "P", "E2U+sip", "e2u+SIP", "SIP+D2U", "sip+d2u", "v=spf1 -all", "V=SPF1 -ALL", "Intel", "INTEL", "Linux", "LINUX", "local", "LOCAL", "true", "TRUE", "0", "1", "\"quoted\"", "a=b=c", "=", ";", "k;v",
    ]
}

/// IPv6 addresses with a conventional meaning (unspecified, loopback, IPv4-mapped and
/// -compatible, NAT64, link-local, multicast, documentation, all ones).
pub fn magic_v6() -> Vec<[u8; 16]> {
    let p = |s: &str| s.parse::<std::net::Ipv6Addr>().unwrap().octets();
    vec![
        p("::"), p("::1"), p("::ffff:1.2.3.4"), p("::ffff:0.0.0.0"), p("::ffff:255.255.255.255"), p("::1.2.3.4"), p("64:ff9b::c000:221"), p("fe80::1"), p("febf::1"), p("ff02::fb"), p("ff02::1"), p("2001:db8::1"), p("2002:c000:221::1"), p("fc00::1"),
        p("ffff:ffff:ffff:ffff:ffff:ffff:ffff:ffff"), p("::ffff:0:0:1"), p("0:0:0:0:0:fffe::1"),
    ]
}

/// Ordered triples of record types in one section (a 16-type subset that spans the RDATA shapes),
/// and messages holding hundreds of records whose TYPE codes are all different.
pub fn type_triple_packets() -> Vec<RefPacket> {
    let pick: Vec<u16> = vec![1, 2, 5, 6, 12, 15, 16, 28, 33, 35, 41, 43, 46, 47, 64, 257];
    let base: Vec<RefRR> = SCHEMAS.iter().filter(|s| pick.contains(&s.code)).map(base_rr).collect();
    let mut out = Vec::new();
    for a in &base {
        for b2 in &base {
            for c in &base {
                let mut p = RefPacket { id: 0x7a1c, flags: F_QR | F_AA, ..Default::default() };
                p.questions.push(RefQ { name: a.name.clone(), qtype: 255, qclass: 1, unicast: false });
                // one section, or spread over the three sections in one of three rotations
                match (a.rdata.code() as usize + 2 * b2.rdata.code() as usize + 3 * c.rdata.code() as usize) % 4 {
                    0 => {
                        p.answers.push(a.clone());
                        p.answers.push(b2.clone());
                        p.answers.push(c.clone());
                    }
                    1 => {
                        p.answers.push(a.clone());
                        p.authority.push(b2.clone());
                        p.additional.push(c.clone());
                    }
                    2 => {
                        p.additional.push(a.clone());
                        p.answers.push(b2.clone());
                        p.authority.push(c.clone());
                    }
                    _ => {
                        p.authority.push(a.clone());
                        p.additional.push(b2.clone());
                        p.additional.push(c.clone());
                    }
                }
                out.push(p);
            }
        }
    }
    for n in [100usize, 256, 300, 1000] {
        let mut p = RefPacket { id: 0x7a1d, flags: F_QR, ..Default::default() };
        for i in 0..n {
            // codes the reference has no schema for, all distinct
            let code = 300 + (i as u16) * 13;
            if !crate::bind::library_has_no_variant_for(code) {
                continue;
            }
            p.answers.push(RefRR { name: RefName::txt("many.example.com"), class: 1, cache_flush: false, ttl: i as u32, rdata: RefRData::Opaque { code, data: bytes_n(1 + i % 4, i as u8) } });
        }
        out.push(p);
    }
    out
}

/// A geometric ladder through the 32-bit range (about three values per octave, plus neighbours
/// of powers of two): any behaviour that depends on a value lying between two thresholds that
/// are more than ~30 % apart is met by some member.
pub fn ladder_u32() -> Vec<u32> {
    let mut v: Vec<u32> = Vec::new();
    let mut x: u64 = 1;
    while x <= u32::MAX as u64 {
        v.push(x as u32);
        x = x + x * 3 / 10 + 1;
    }
    for k in 1..32u32 {
        v.push((1u32 << k) - 1);
        v.push((1u32 << k) + 1);
        v.push((1u32 << k) + (1u32 << k) / 2);
    }
    v.sort();
    v.dedup();
    v
}

/// 32-bit values that code tends to special-case: common TTLs and timers, powers of ten and two
/// and their neighbours, well-known addresses.
pub fn magic_u32() -> Vec<u32> {
    let mut v: Vec<u32> = vec![
        10, 59, 60, 61, 75, 100, 119, 120, 121, 255, 256, 300, 1000, 1800, 3599, 3600, 3601, 4500, 7200, 10000, 65535, 65536, 86399, 86400, 86401, 604800, 2419200, 31536000, 0x7fff_fffe, 0x7fff_ffff, 0x8000_0000, 0x8000_0001,
        0xffff_fffe, 0x7f00_0001, 0xe000_00fb, 0xa9fe_0001, 0xc0a8_0001, 0x0a00_0001, 0xac10_0001, 0xffff_ff00, 0x0100_007f,
    ];
    for k in [8u32, 15, 16, 23, 24, 31] {
        v.push((1u32 << k) - 1);
        v.push(1u32 << k);
        v.push((1u32 << k) + 1);
    }
    v.sort();
    v.dedup();
    v
}

/// A reduced size ladder for products of two size parameters.
pub fn size_ladder(k: Kind) -> Vec<Val> {
    match k {
        Kind::Str => [0usize, 1, 2, 31, 32, 63, 64, 65, 120, 127, 128, 129, 200, 254, 255].iter().map(|n| Val::Str(bytes_n(*n, *n as u8))).collect(),
        Kind::Tail => [0usize, 1, 2, 15, 16, 17, 63, 64, 65, 255, 256, 257, 508, 509, 512, 1000].iter().map(|n| Val::Tail(bytes_n(*n, *n as u8))).collect(),
        Kind::Name(_) => {
            let mut v: Vec<Val> = [1usize, 2, 3, 31, 32, 33, 63, 64, 65, 100, 127].iter().map(|nl| Val::Name(RefName((0..*nl).map(|j| B(vec![b'a' + (j % 26) as u8])).collect()))).collect();
            v.push(Val::Name(RefName::root()));
            v.push(Val::Name(max_name()));
            v.push(Val::Name(RefName(vec![label_n(63, b'm'), b(b"example")])));
            v
        }
        Kind::Strs => [1usize, 2, 32, 33, 70].iter().map(|n| Val::Strs((0..*n).map(|j| bytes_n(j % 7, j as u8)).collect())).collect(),
        Kind::Params => [0usize, 1, 8, 24].iter().map(|n| Val::Params((0..*n).map(|j| ((j * 3) as u16, bytes_n(j % 5, j as u8))).collect())).collect(),
        Kind::Windows => [1usize, 2, 36].iter().map(|n| Val::Windows((0..*n).map(|j| ((j * 7) as u8, bytes_n(1 + j % 32, j as u8))).collect())).collect(),
        _ => vec![],
    }
}

/// Products of two size parameters: for every schema and every pair of variable-size fields, every
/// pair of values of the reduced ladder; and for every schema with one such field, that field's
/// ladder x the owner-name ladder.
pub fn size_pair_records() -> Vec<RefRR> {
    let mut out = Vec::new();
    for sch in SCHEMAS {
        let base = default_vals(sch);
        let kinds = val_kinds(sch);
        let var: Vec<usize> = (0..kinds.len()).filter(|i| !size_ladder(kinds[*i]).is_empty()).collect();
        for (ai, a) in var.iter().enumerate() {
            for b2 in var.iter().skip(ai + 1) {
                for va in size_ladder(kinds[*a]) {
                    for vb in size_ladder(kinds[*b2]) {
                        let mut x = base.clone();
                        x[*a] = va.clone();
                        x[*b2] = vb;
                        if !vals_wire_representable(sch, &x) || !vals_rfc_canonical(&x) {
                            continue;
                        }
                        let mut r = base_rr(sch);
                        r.rdata = RefRData::Typed { code: sch.code, vals: x };
                        out.push(r);
                    }
                }
            }
            for va in size_ladder(kinds[*a]) {
                for owner in size_ladder(Kind::Name(Comp::Rfc1035)) {
                    let Val::Name(owner) = owner else { continue };
                    let mut x = base.clone();
                    x[*a] = va.clone();
                    if !vals_wire_representable(sch, &x) || !vals_rfc_canonical(&x) {
                        continue;
                    }
                    let mut r = base_rr(sch);
                    r.name = owner;
                    r.rdata = RefRData::Typed { code: sch.code, vals: x };
                    out.push(r);
                }
            }
        }
    }
    out
}

/// The size sweep as packets: the record between a question for its owner and a CNAME naming
/// the same owner; plus owner / question names over the whole name size sweep.
pub fn size_sweep_packets() -> Vec<RefPacket> {
    let mut out = Vec::new();
    for r in size_sweep_records().into_iter().chain(size_pair_records()) {
        let mut p = RefPacket { id: 0x5123, flags: F_QR | F_AA, ..Default::default() };
        p.questions.push(RefQ { name: r.name.clone(), qtype: 255, qclass: 1, unicast: false });
        let owner = r.name.clone();
        p.answers.push(r);
        p.additional.push(RefRR { name: RefName::txt("alias.example.com"), class: 1, cache_flush: false, ttl: 5, rdata: rdata_with_names(5, &[owner]) });
        out.push(p);
    }
    for v in size_values(Kind::Name(Comp::Rfc1035)) {
        let Val::Name(n) = v else { continue };
        let mut p = RefPacket { id: 0x5124, flags: F_QR, ..Default::default() };
        p.questions.push(RefQ { name: n.clone(), qtype: 1, qclass: 1, unicast: false });
        p.answers.push(RefRR { name: n.clone(), class: 1, cache_flush: false, ttl: 9, rdata: RefRData::Typed { code: 1, vals: vec![Val::U32(0x0a000001)] } });
        // a parent (one label shorter) and a child (one label longer, if it fits) sharing the suffix
        if n.0.len() > 1 {
            p.answers.push(RefRR { name: RefName(n.0[1..].to_vec()), class: 1, cache_flush: false, ttl: 8, rdata: rdata_with_names(2, &[n.clone()]) });
        }
        let mut child = vec![b(b"c")];
        child.extend(n.0.iter().cloned());
        let child = RefName(child);
        if child.is_wire_valid() {
            p.additional.push(RefRR { name: child, class: 1, cache_flush: false, ttl: 7, rdata: RefRData::Typed { code: 1, vals: vec![Val::U32(0x0a000002)] } });
        }
        out.push(p);
    }
    out.extend(type_pair_packets());
    out.extend(type_triple_packets());
    for o in opt_many_codes() {
        let mut p = RefPacket { id: 0x5129, flags: F_QR, opt: Some(o), ..Default::default() };
        p.questions.push(RefQ { name: RefName::txt("example.com"), qtype: 1, qclass: 1, unicast: false });
        out.push(p);
    }
    // every name-bearing type under every class (and with the cache-flush bit), names repeated so
    // that compression has work to do whatever the class
    for sch in SCHEMAS {
        if !sch.fields.iter().any(|(_, k)| matches!(k, Kind::Name(_))) {
            continue;
        }
        for class in [1u16, 2, 3, 4, 254] {
            for cf in [false, true] {
                let n = RefName::txt("host.example.com");
                let mut p = RefPacket { id: 0x5127, flags: F_QR | F_AA, ..Default::default() };
                p.questions.push(RefQ { name: n.clone(), qtype: sch.code, qclass: if class == 254 { 255 } else { class }, unicast: false });
                p.answers.push(RefRR { name: n.clone(), class, cache_flush: cf, ttl: 300, rdata: rdata_with_names(sch.code, &[n.clone(), RefName::txt("ns.host.example.com")]) });
                p.answers.push(RefRR { name: RefName::txt("ns.host.example.com"), class, cache_flush: cf, ttl: 300, rdata: rdata_with_names(sch.code, &[n.clone()]) });
                p.additional.push(RefRR { name: n.clone(), class, cache_flush: false, ttl: 300, rdata: RefRData::Typed { code: 1, vals: vec![Val::U32(0x0a000001)] } });
                out.push(p);
            }
        }
    }
    // every magic 32-bit value as TTL (plain and with the cache-flush bit) and as an A address / SOA timer
    for (j, m) in magic_u32().into_iter().chain(ladder_u32()).enumerate() {
        let mut p = RefPacket { id: 0x5126, flags: F_QR, ..Default::default() };
        p.answers.push(RefRR { name: RefName::txt("ttl.example.com"), class: 1, cache_flush: j % 2 == 1, ttl: m, rdata: RefRData::Typed { code: 1, vals: vec![Val::U32(m)] } });
        let soa = schema::schema(6).unwrap();
        let mut sv = default_vals(soa);
        for v in sv.iter_mut() {
            if let Val::U32(x) = v {
                *x = m;
            }
            if let Val::I32(x) = v {
                *x = m as i32;
            }
        }
        p.authority.push(RefRR { name: RefName::txt("example.com"), class: 1, cache_flush: false, ttl: m ^ 1, rdata: RefRData::Typed { code: 6, vals: sv } });
        out.push(p);
    }
    // many distinct names, each used again later
    for n in [2usize, 40, 127, 128, 129, 255, 256, 257, 300, 400] {
        let mut p = RefPacket { id: 0x5125, flags: F_QR, ..Default::default() };
        p.questions.push(RefQ { name: RefName::txt("example.com"), qtype: 255, qclass: 1, unicast: false });
        let host = |i: usize| RefName(vec![b(format!("h{:03}", i).as_bytes()), b(b"example"), b(b"com")]);
        for i in 0..n {
            p.answers.push(RefRR { name: host(i), class: 1, cache_flush: false, ttl: i as u32, rdata: RefRData::Typed { code: 1, vals: vec![Val::U32(i as u32)] } });
        }
        for i in 0..n {
            let r = if i % 3 == 0 { rdata_with_names(5, &[host((i * 7) % n)]) } else { RefRData::Typed { code: 1, vals: vec![Val::U32(!(i as u32))] } };
            p.additional.push(RefRR { name: host(i), class: 1, cache_flush: false, ttl: i as u32, rdata: r });
        }
        out.push(p);
    }
    out
}

/// Hand-laid messages whose names need many decoding steps: k inline one-byte labels with and
/// without a closing pointer (every k up to 130), a label of every length before a pointer, and
/// chains of h label-less backward pointers (every h up to `max_chain`, then a ladder up to 8000)
/// reached from an owner name, from an MX exchange and from a question. `rdata_name_at` is unused
/// here; every record has its natural RDLENGTH and a sentinel A record follows.
pub fn name_shape_messages(max_chain: usize) -> Vec<Vec<u8>> {
    fn hdr(counts: [u16; 4]) -> Vec<u8> {
        let mut h = vec![0x6e, 0x73, 0x84, 0x00];
        for c in counts {
            h.extend_from_slice(&c.to_be_bytes());
        }
        h
    }
    let a_tail = |m: &mut Vec<u8>, last: u8| m.extend_from_slice(&[0, 1, 0, 1, 0, 0, 0, 9, 0, 4, 10, 0, 0, last]);
    let sentinel = |m: &mut Vec<u8>| {
        m.extend_from_slice(&[1, b's', 0xc0, 12]);
        m.extend_from_slice(&[0, 1, 0, 1, 0, 0, 0, 7, 0, 4, 10, 9, 9, 9]);
    };
    let mut out = Vec::new();
    for k in 0..=130usize {
        for closing_pointer in [true, false] {
            // question "z" at offset 12; answer owner = k labels (+ pointer to 12 | root)
            let mut m = hdr([1, 2, 0, 0]);
            m.extend_from_slice(&[1, b'z', 0, 0, 1, 0, 1]);
            for i in 0..k {
                m.extend_from_slice(&[1, b'a' + (i % 26) as u8]);
            }
            if closing_pointer {
                m.extend_from_slice(&[0xc0, 12]);
            } else {
                m.push(0);
            }
            a_tail(&mut m, k as u8);
            sentinel(&mut m);
            out.push(m);
        }
    }
    for l in 1..=63usize {
        for second in [0usize, 1, 63] {
            let mut m = hdr([1, 2, 0, 0]);
            m.extend_from_slice(&[1, b'z', 0, 0, 1, 0, 1]);
            m.push(l as u8);
            m.extend(std::iter::repeat(b'l').take(l));
            if second > 0 {
                m.push(second as u8);
                m.extend(std::iter::repeat(b'm').take(second));
            }
            m.extend_from_slice(&[0xc0, 12]);
            a_tail(&mut m, l as u8);
            sentinel(&mut m);
            out.push(m);
        }
    }
    let hops: Vec<usize> = (1..=max_chain).chain([2000usize, 4000, 8000].into_iter().filter(|h| *h > max_chain)).collect();
    for h in hops {
        for end_labels in [1usize, 126] {
            if end_labels > 1 && h > 300 && h % 97 != 0 {
                continue;
            }
            // question "z"; answer 1: NULL record (root owner) whose RDATA holds a name followed
            // by h pointers, each to the previous one; answer 2: owner = pointer to the last one;
            // answer 3: MX whose exchange is a pointer to the last one; then the sentinel
            let mut m = hdr([1, 4, 0, 0]);
            m.extend_from_slice(&[1, b'z', 0, 0, 1, 0, 1]);
            m.extend_from_slice(&[0, 0, 10, 0, 1, 0, 0, 0, 1]);
            let rdlen = end_labels * 2 + 1 + 2 * h;
            if rdlen > 65000 {
                continue;
            }
            m.extend_from_slice(&(rdlen as u16).to_be_bytes());
            let mut prev = m.len();
            for i in 0..end_labels {
                m.extend_from_slice(&[1, b'f' + (i % 7) as u8]);
            }
            m.push(0);
            for _ in 0..h {
                let here = m.len();
                m.extend_from_slice(&[0xc0 | (prev >> 8) as u8, prev as u8]);
                prev = here;
            }
            if prev > 0x3fff {
                continue;
            }
            let p = [0xc0 | (prev >> 8) as u8, prev as u8];
            m.extend_from_slice(&p);
            a_tail(&mut m, 1);
            m.extend_from_slice(&[1, b'x']);
            m.extend_from_slice(&p);
            m.extend_from_slice(&[0, 15, 0, 1, 0, 0, 0, 3, 0, 4, 0, 10]);
            m.extend_from_slice(&p);
            sentinel(&mut m);
            out.push(m);
        }
    }
    out
}

/// Packets with more than a handful of entries of mixed types, and packets whose total size
/// straddles the sizes implementations tend to special-case.
pub fn many_and_sized_packets() -> Vec<RefPacket> {
    let mut out = Vec::new();
    let base: Vec<RefRR> = SCHEMAS.iter().map(base_rr).collect();
    for n in [5usize, 7, 10, 17, 33, 39, 64, 100] {
        let mut p = RefPacket { id: n as u16, flags: F_QR | F_AA, ..Default::default() };
        for i in 0..n {
            let mut r = base[(i * 7) % base.len()].clone();
            r.name = RefName(vec![b(format!("n{}", i % 5).as_bytes()), b(b"example"), b(b"com")]);
            r.ttl = i as u32 * 1000 + 7;
            match i % 4 {
                0 | 1 => p.answers.push(r),
                2 => p.authority.push(r),
                _ => p.additional.push(r),
            }
        }
        for i in 0..(n / 3).max(1) {
            p.questions.push(RefQ { name: RefName(vec![b(format!("n{}", i % 5).as_bytes()), b(b"example"), b(b"com")]), qtype: [1u16, 28, 33, 255][i % 4], qclass: 1, unicast: i % 2 == 1 });
        }
        if n % 2 == 1 {
            p.opt = Some(RefOpt { udp: 1232, version: 0, options: (0..n.min(20)).map(|j| (j as u16 + 1, bytes_n(j % 9, j as u8))).collect() });
        }
        out.push(p);
    }
    for size in [500usize, 511, 512, 513, 899, 900, 901, 1024, 1232, 1233, 1472, 1500, 2048, 4095, 4096, 4097, 8191, 8192, 8999, 9000, 9001, 12000, 20000] {
        // question + A + filler TXT (several strings) sized so that the plain encoding has exactly `size` bytes
        let mut p = RefPacket { id: 0x512e, flags: F_QR, ..Default::default() };
        p.questions.push(RefQ { name: RefName::txt("size.example.com"), qtype: 16, qclass: 1, unicast: false });
        p.answers.push(rr("size.example.com", RefRData::Typed { code: 1, vals: vec![Val::U32(0x7f000001)] }));
        p.additional.push(rr("size.example.com", RefRData::Typed { code: 16, vals: vec![Val::Strs(vec![b(b"x")])] }));
        let now = p.encode(0).len();
        if size <= now {
            continue;
        }
        let mut need = size - now; // bytes to add to the TXT RDATA (each string costs 1 + len)
        let mut strs = vec![b(b"x")];
        while need > 0 {
            let l = (need - 1).min(255);
            strs.push(bytes_n(l, need as u8));
            need -= 1 + l;
        }
        if let RefRData::Typed { vals, .. } = &mut p.additional[0].rdata {
            vals[0] = Val::Strs(strs);
        }
        out.push(p);
    }
    // one record whose RDATA has exactly L bytes, L through the 16-bit range (opaque and TXT),
    // between two small records that share its owner name
    for l in [255usize, 256, 257, 4095, 4096, 16383, 16384, 16385, 32766, 32767, 32768, 32769, 40000, 49151, 49152, 65279, 65280, 65534, 65535] {
        for kind in 0..2 {
            let rdata = if kind == 0 {
                RefRData::Opaque { code: 65280, data: bytes_n(l, l as u8) }
            } else {
                let mut strs = Vec::new();
                let mut need = l;
                while need > 0 {
                    let s = (need - 1).min(255);
                    strs.push(bytes_n(s, need as u8));
                    need -= 1 + s;
                }
                RefRData::Typed { code: 16, vals: vec![Val::Strs(strs)] }
            };
            if kind == 0 && !crate::bind::library_has_no_variant_for(65280) {
                continue;
            }
            let mut p = RefPacket { id: 0x512f, flags: F_QR, ..Default::default() };
            p.questions.push(RefQ { name: RefName::txt("big.example.com"), qtype: 255, qclass: 1, unicast: false });
            p.answers.push(rr("big.example.com", RefRData::Typed { code: 1, vals: vec![Val::U32(0x7f000001)] }));
            p.answers.push(rr("big.example.com", rdata));
            p.additional.push(rr("after.big.example.com", RefRData::Typed { code: 5, vals: vec![Val::Name(RefName::txt("big.example.com"))] }));
            // names that are written for the first time behind the large record and then repeated
            // (as owner, inside RDATA followed by further fields, and as a suffix of a longer name)
            p.additional.push(rr("late.zone.test", RefRData::Typed { code: 1, vals: vec![Val::U32(0x0a000007)] }));
            p.additional.push(rr("late.zone.test", RefRData::Typed { code: 15, vals: vec![Val::U16(10), Val::Name(RefName::txt("mx.late.zone.test"))] }));
            p.additional.push(RefRR { name: RefName::txt("mx.late.zone.test"), class: 1, cache_flush: false, ttl: 120, rdata: RefRData::Typed { code: 1, vals: vec![Val::U32(0x0a000008)] } });
            p.additional.push(rr("zone.test", RefRData::Typed { code: 2, vals: vec![Val::Name(RefName::txt("late.zone.test"))] }));
            out.push(p);
        }
    }
    // two and three large records: names first written beyond 128 KiB and 192 KiB
    for k in [2usize, 3] {
        if !crate::bind::library_has_no_variant_for(65280) {
            break;
        }
        let mut p = RefPacket { id: 0x5130, flags: F_QR, ..Default::default() };
        p.questions.push(RefQ { name: RefName::txt("big.example.com"), qtype: 255, qclass: 1, unicast: false });
        for j in 0..k {
            p.answers.push(rr("big.example.com", RefRData::Opaque { code: 65280, data: bytes_n(65535 - j, j as u8) }));
            p.answers.push(rr(&format!("n{}.far.test", j), RefRData::Typed { code: 1, vals: vec![Val::U32(j as u32)] }));
            p.answers.push(rr(&format!("n{}.far.test", j), RefRData::Typed { code: 15, vals: vec![Val::U16(1), Val::Name(RefName::txt(&format!("n{}.far.test", j)))] }));
        }
        p.additional.push(rr("far.test", RefRData::Typed { code: 2, vals: vec![Val::Name(RefName::txt("n0.far.test"))] }));
        out.push(p);
    }
    out
}
