//! Shared exploration plumbing: tiers, tallies, violation bookkeeping, evidence writer,
//! panic capture, allocation meter and watchdog.

use serde_json::{json, Value};
use std::alloc::{GlobalAlloc, Layout, System};
use std::cell::{Cell, RefCell};
use std::collections::BTreeMap;
use std::panic::{self, AssertUnwindSafe};
use std::sync::atomic::{AtomicBool, AtomicU64, Ordering};
use std::sync::{Arc, Mutex};
use std::time::{Duration, Instant};

#[derive(Clone, Copy, PartialEq, Eq, Debug)]
pub enum Tier {
    Quick,
    Thorough,
}

impl Tier {
    pub fn name(self) -> &'static str {
        match self {
            Tier::Quick => "quick",
            Tier::Thorough => "thorough",
        }
    }
    pub fn pick<T>(self, q: T, t: T) -> T {
        match self {
            Tier::Quick => q,
            Tier::Thorough => t,
        }
    }
}

// ---------------------------------------------------------------------------------------------
// allocation meter (thread-local, so parallel shards do not disturb each other)

pub struct Meter;

thread_local! {
    static LIVE: Cell<isize> = const { Cell::new(0) };
    static PEAK: Cell<isize> = const { Cell::new(0) };
    static BIGGEST: Cell<usize> = const { Cell::new(0) };
}

unsafe impl GlobalAlloc for Meter {
    unsafe fn alloc(&self, l: Layout) -> *mut u8 {
        let _ = LIVE.try_with(|v| {
            let n = v.get() + l.size() as isize;
            v.set(n);
            let _ = PEAK.try_with(|p| {
                if n > p.get() {
                    p.set(n)
                }
            });
        });
        let _ = BIGGEST.try_with(|b| {
            if l.size() > b.get() {
                b.set(l.size())
            }
        });
        System.alloc(l)
    }
    unsafe fn dealloc(&self, p: *mut u8, l: Layout) {
        let _ = LIVE.try_with(|v| v.set(v.get() - l.size() as isize));
        System.dealloc(p, l)
    }
    unsafe fn realloc(&self, p: *mut u8, l: Layout, new: usize) -> *mut u8 {
        let _ = LIVE.try_with(|v| {
            let n = v.get() + new as isize - l.size() as isize;
            v.set(n);
            let _ = PEAK.try_with(|pk| {
                if n > pk.get() {
                    pk.set(n)
                }
            });
        });
        let _ = BIGGEST.try_with(|b| {
            if new > b.get() {
                b.set(new)
            }
        });
        System.realloc(p, l, new)
    }
}

/// Run `f` and return (result, peak live heap bytes allocated by this thread during the call).
pub fn measure_peak<R>(f: impl FnOnce() -> R) -> (R, usize) {
    LIVE.with(|v| v.set(0));
    PEAK.with(|v| v.set(0));
    BIGGEST.with(|v| v.set(0));
    let r = f();
    let p = PEAK.with(|v| v.get());
    (r, p.max(0) as usize)
}

// ---------------------------------------------------------------------------------------------
// panic capture

thread_local! {
    static LAST_PANIC: RefCell<Option<(String, String)>> = const { RefCell::new(None) };
}

pub fn install_panic_hook() {
    panic::set_hook(Box::new(|info| {
        let loc = info
            .location()
            .map(|l| {
                let f = l.file();
                // keep the path below the repository / registry root so that it is stable
                let f = f.rsplit_once("/repo/").map(|x| x.1).unwrap_or(f);
                format!("{}:{}", f, l.line())
            })
            .unwrap_or_else(|| "?".into());
        let msg = if let Some(s) = info.payload().downcast_ref::<&str>() {
            s.to_string()
        } else if let Some(s) = info.payload().downcast_ref::<String>() {
            s.clone()
        } else {
            "<non-string panic>".into()
        };
        LAST_PANIC.with(|p| *p.borrow_mut() = Some((loc, msg)));
    }));
}

#[derive(Debug, Clone)]
pub struct PanicInfo {
    pub location: String,
    pub message: String,
}

impl PanicInfo {
    /// Signature fragment: file without line number, message with digits folded.
    pub fn sig(&self) -> String {
        let file = self.location.rsplit_once(':').map(|x| x.0).unwrap_or(&self.location);
        let mut m = String::new();
        let mut prev_digit = false;
        for c in self.message.chars() {
            if c.is_ascii_digit() {
                if !prev_digit {
                    m.push('N');
                }
                prev_digit = true;
            } else {
                prev_digit = false;
                m.push(c);
            }
        }
        let m: String = m.chars().take(60).collect();
        format!("panic@{}:{}", file, m)
    }
}

// every guarded call beats a per-thread counter (odd while inside), so that a global monitor can
// tell a case that never returns from a slow run
static BEATS: Mutex<Vec<Arc<AtomicU64>>> = Mutex::new(Vec::new());
thread_local! {
    static MY_BEAT: Arc<AtomicU64> = {
        let b = Arc::new(AtomicU64::new(0));
        BEATS.lock().unwrap().push(b.clone());
        b
    };
    static GUARD_DEPTH: Cell<u32> = const { Cell::new(0) };
}

/// Global hang monitor: if some thread stays inside one guarded call for `limit`, the code
/// under test is not returning; that is reported as a machinery exit (no verdict) unless the
/// property has its own, shorter, watchdog that turns it into a violation.
pub fn start_hang_monitor(prop: String, limit: Duration) {
    std::thread::spawn(move || {
        let mut seen: Vec<(u64, Instant)> = Vec::new();
        loop {
            std::thread::sleep(Duration::from_secs(2));
            let beats: Vec<Arc<AtomicU64>> = BEATS.lock().unwrap().clone();
            seen.resize(beats.len(), (0, Instant::now()));
            for (i, b) in beats.iter().enumerate() {
                let v = b.load(Ordering::Relaxed);
                if v != seen[i].0 {
                    seen[i] = (v, Instant::now());
                } else if v % 2 == 1 && seen[i].1.elapsed() > limit {
                    println!("MACHINERY: the code under test did not return from one case within {:?} while checking {}; no verdict for this property", limit, prop);
                    eprintln!("MACHINERY: hang in the code under test ({})", prop);
                    std::process::exit(2);
                }
            }
        }
    });
}

// ---------------------------------------------------------------------------------------------
// aborts (stack overflow, abort(), double panic): not unwinding, so catch_unwind cannot see them

static ABORT_MSG: std::sync::OnceLock<(Vec<u8>, std::ffi::CString, Vec<u8>)> = std::sync::OnceLock::new();

extern "C" fn on_abort(_sig: libc::c_int) {
    // async-signal-safe calls only: the process is dying on an alternate stack
    if let Some((line, path, body)) = ABORT_MSG.get() {
        unsafe {
            let fd = libc::open(path.as_ptr(), libc::O_CREAT | libc::O_WRONLY | libc::O_TRUNC, 0o644);
            if fd >= 0 {
                libc::write(fd, body.as_ptr() as *const libc::c_void, body.len());
                libc::close(fd);
            }
            libc::write(1, line.as_ptr() as *const libc::c_void, line.len());
        }
    }
    unsafe { libc::_exit(1) }
}

/// A process abort inside the code under test (stack overflow from unbounded recursion, abort())
/// is a violation of every no-panic property and at least "no verdict" for the others; report it
/// as a VIOLATION of the running property with a generic artefact instead of dying on a signal.
/// Checks that expect such failures run the risky cases through `run_isolated` instead, which
/// names the case.
pub fn install_abort_handler(prop: &str, verif_root: &str) {
    let path = format!("{}/replays/{}-abort.json", verif_root, prop);
    let _ = std::fs::create_dir_all(format!("{}/replays", verif_root));
    let body = format!("{{\"property\":\"{}\",\"signature\":\"{}|process-abort\",\"detail\":\"the process aborted (stack overflow or abort()) inside the code under test; rerun the check to reproduce\",\"case\":{{\"kind\":\"abort\"}}}}", prop, prop);
    let line = format!("VIOLATION property={} replay={}\n  signature: {}|process-abort\n  detail: the process aborted (stack overflow or abort()) inside the code under test\n", prop, path, prop);
    let _ = ABORT_MSG.set((line.into_bytes(), std::ffi::CString::new(path).unwrap(), body.into_bytes()));
    unsafe {
        libc::signal(libc::SIGABRT, on_abort as usize);
    }
}

/// Environment probe that does not involve the library: does a datagram sent to the mDNS group
/// from this host come back to a socket that joined the group on port 5353?
pub fn loopback_multicast_works() -> bool {
    unsafe {
        let rx = libc::socket(libc::AF_INET, libc::SOCK_DGRAM, 0);
        if rx < 0 {
            return false;
        }
        let one: libc::c_int = 1;
        let sz = std::mem::size_of::<libc::c_int>() as libc::socklen_t;
        libc::setsockopt(rx, libc::SOL_SOCKET, libc::SO_REUSEADDR, &one as *const _ as *const libc::c_void, sz);
        libc::setsockopt(rx, libc::SOL_SOCKET, libc::SO_REUSEPORT, &one as *const _ as *const libc::c_void, sz);
        let mut addr: libc::sockaddr_in = std::mem::zeroed();
        addr.sin_family = libc::AF_INET as libc::sa_family_t;
        addr.sin_port = 5353u16.to_be();
        addr.sin_addr = libc::in_addr { s_addr: 0 };
        if libc::bind(rx, &addr as *const _ as *const libc::sockaddr, std::mem::size_of::<libc::sockaddr_in>() as libc::socklen_t) != 0 {
            libc::close(rx);
            return false;
        }
        let mreq = libc::ip_mreq { imr_multiaddr: libc::in_addr { s_addr: u32::from_ne_bytes([224, 0, 0, 251]) }, imr_interface: libc::in_addr { s_addr: 0 } };
        if libc::setsockopt(rx, libc::IPPROTO_IP, libc::IP_ADD_MEMBERSHIP, &mreq as *const _ as *const libc::c_void, std::mem::size_of::<libc::ip_mreq>() as libc::socklen_t) != 0 {
            libc::close(rx);
            return false;
        }
        let tv = libc::timeval { tv_sec: 0, tv_usec: 100_000 };
        libc::setsockopt(rx, libc::SOL_SOCKET, libc::SO_RCVTIMEO, &tv as *const _ as *const libc::c_void, std::mem::size_of::<libc::timeval>() as libc::socklen_t);
        let tx = match std::net::UdpSocket::bind((std::net::Ipv4Addr::UNSPECIFIED, 0)) {
            Ok(s) => s,
            Err(_) => {
                libc::close(rx);
                return false;
            }
        };
        let _ = tx.set_multicast_loop_v4(true);
        // a 13-byte datagram that is not a DNS message any service would act on
        let token = *b"verif-probe-0";
        let mut ok = false;
        for _ in 0..10 {
            let _ = tx.send_to(&token, (std::net::Ipv4Addr::new(224, 0, 0, 251), 5353));
            let mut buf = [0u8; 64];
            for _ in 0..5 {
                let n = libc::recv(rx, buf.as_mut_ptr() as *mut libc::c_void, buf.len(), 0);
                if n == token.len() as isize && buf[..token.len()] == token {
                    ok = true;
                    break;
                }
            }
            if ok {
                break;
            }
        }
        libc::close(rx);
        ok
    }
}

/// A growable sink that accepts at most `n` bytes per `write` call (and does not override
/// write_vectored: std then forwards the first non-empty buffer to `write`).
pub struct Drip {
    pub buf: std::io::Cursor<Vec<u8>>,
    pub n: usize,
}
impl Drip {
    pub fn new(n: usize) -> Drip {
        Drip { buf: std::io::Cursor::new(Vec::new()), n }
    }
}
impl std::io::Write for Drip {
    fn write(&mut self, b: &[u8]) -> std::io::Result<usize> {
        let k = b.len().min(self.n);
        std::io::Write::write(&mut self.buf, &b[..k])
    }
    fn flush(&mut self) -> std::io::Result<()> {
        Ok(())
    }
}
impl std::io::Seek for Drip {
    fn seek(&mut self, p: std::io::SeekFrom) -> std::io::Result<u64> {
        std::io::Seek::seek(&mut self.buf, p)
    }
}

/// A growable sink with a native gathered write: `write_vectored` takes bytes from as many of
/// the buffers as fit into `n` bytes per call and stops in the middle of a buffer when `n` runs
/// out (as a socket or a line-buffered stream may); `write` is limited to `n` bytes too.
pub struct Gather {
    pub buf: std::io::Cursor<Vec<u8>>,
    pub n: usize,
}
impl Gather {
    pub fn new(n: usize) -> Gather {
        Gather { buf: std::io::Cursor::new(Vec::new()), n }
    }
}
impl std::io::Write for Gather {
    fn write(&mut self, b: &[u8]) -> std::io::Result<usize> {
        let k = b.len().min(self.n);
        std::io::Write::write(&mut self.buf, &b[..k])
    }
    fn write_vectored(&mut self, bufs: &[std::io::IoSlice<'_>]) -> std::io::Result<usize> {
        let mut left = self.n;
        let mut total = 0;
        for b in bufs {
            if left == 0 {
                break;
            }
            let k = b.len().min(left);
            std::io::Write::write_all(&mut self.buf, &b[..k])?;
            left -= k;
            total += k;
        }
        Ok(total)
    }
    fn flush(&mut self) -> std::io::Result<()> {
        Ok(())
    }
}
impl std::io::Seek for Gather {
    fn seek(&mut self, p: std::io::SeekFrom) -> std::io::Result<u64> {
        std::io::Seek::seek(&mut self.buf, p)
    }
}

/// The same probe for IPv6 (ff02::fb, default multicast interface).
pub fn loopback_multicast6_works() -> bool {
    unsafe {
        let rx = libc::socket(libc::AF_INET6, libc::SOCK_DGRAM, 0);
        if rx < 0 {
            return false;
        }
        let one: libc::c_int = 1;
        let sz = std::mem::size_of::<libc::c_int>() as libc::socklen_t;
        libc::setsockopt(rx, libc::SOL_SOCKET, libc::SO_REUSEADDR, &one as *const _ as *const libc::c_void, sz);
        libc::setsockopt(rx, libc::SOL_SOCKET, libc::SO_REUSEPORT, &one as *const _ as *const libc::c_void, sz);
        libc::setsockopt(rx, libc::IPPROTO_IPV6, libc::IPV6_V6ONLY, &one as *const _ as *const libc::c_void, sz);
        let mut addr: libc::sockaddr_in6 = std::mem::zeroed();
        addr.sin6_family = libc::AF_INET6 as libc::sa_family_t;
        addr.sin6_port = 5353u16.to_be();
        if libc::bind(rx, &addr as *const _ as *const libc::sockaddr, std::mem::size_of::<libc::sockaddr_in6>() as libc::socklen_t) != 0 {
            libc::close(rx);
            return false;
        }
        let group = std::net::Ipv6Addr::new(0xff02, 0, 0, 0, 0, 0, 0, 0xfb);
        let mreq = libc::ipv6_mreq { ipv6mr_multiaddr: libc::in6_addr { s6_addr: group.octets() }, ipv6mr_interface: 0 };
        if libc::setsockopt(rx, libc::IPPROTO_IPV6, libc::IPV6_ADD_MEMBERSHIP, &mreq as *const _ as *const libc::c_void, std::mem::size_of::<libc::ipv6_mreq>() as libc::socklen_t) != 0 {
            libc::close(rx);
            return false;
        }
        let tv = libc::timeval { tv_sec: 0, tv_usec: 100_000 };
        libc::setsockopt(rx, libc::SOL_SOCKET, libc::SO_RCVTIMEO, &tv as *const _ as *const libc::c_void, std::mem::size_of::<libc::timeval>() as libc::socklen_t);
        let tx = match std::net::UdpSocket::bind((std::net::Ipv6Addr::UNSPECIFIED, 0)) {
            Ok(s) => s,
            Err(_) => {
                libc::close(rx);
                return false;
            }
        };
        let _ = tx.set_multicast_loop_v6(true);
        let token = *b"verif-probe-6";
        let mut ok = false;
        for _ in 0..10 {
            let _ = tx.send_to(&token, (group, 5353));
            let mut buf = [0u8; 64];
            for _ in 0..5 {
                let n = libc::recv(rx, buf.as_mut_ptr() as *mut libc::c_void, buf.len(), 0);
                if n == token.len() as isize && buf[..token.len()] == token {
                    ok = true;
                    break;
                }
            }
            if ok {
                break;
            }
        }
        libc::close(rx);
        ok
    }
}

/// The IPv4 address of the interface that multicast datagrams leave through (for
/// NetworkScope::V4WithInterface), learned from the routing decision of a connected socket.
pub fn multicast_interface_v4() -> Option<std::net::Ipv4Addr> {
    let s = std::net::UdpSocket::bind((std::net::Ipv4Addr::UNSPECIFIED, 0)).ok()?;
    s.connect((std::net::Ipv4Addr::new(224, 0, 0, 251), 5353)).ok()?;
    match s.local_addr().ok()? {
        std::net::SocketAddr::V4(a) if !a.ip().is_unspecified() => Some(*a.ip()),
        _ => None,
    }
}

/// Run one recorded case in a child process (`mc --replay <file>`): Ok(signatures) on exit 0/1,
/// Err(description) when the child died on a signal or failed otherwise.
pub fn run_isolated(verif_root: &str, prop: &str, tag: &str, case: &serde_json::Value) -> Result<Vec<(String, String)>, String> {
    let _ = std::fs::create_dir_all(format!("{}/replays", verif_root));
    let path = format!("{}/replays/{}-iso-{}.json", verif_root, prop, tag);
    let body = serde_json::json!({"property": prop, "signature": format!("{}|isolated", prop), "detail": "", "case": case});
    std::fs::write(&path, serde_json::to_string(&body).unwrap()).map_err(|e| format!("cannot write {}: {}", path, e))?;
    let exe = std::env::current_exe().map_err(|e| format!("{}", e))?;
    let out = std::process::Command::new(exe).arg("--replay").arg(&path).env("VERIF_ROOT", verif_root).env("MC_CHILD", "1").output().map_err(|e| format!("spawn: {}", e))?;
    let stdout = String::from_utf8_lossy(&out.stdout).to_string();
    match out.status.code() {
        Some(0) => {
            let _ = std::fs::remove_file(&path);
            Ok(vec![])
        }
        Some(1) => {
            let mut sigs = Vec::new();
            let mut cur: Option<String> = None;
            for l in stdout.lines() {
                if let Some(s) = l.trim().strip_prefix("signature: ") {
                    cur = Some(s.to_string());
                } else if let Some(d) = l.trim().strip_prefix("detail: ") {
                    if let Some(s) = cur.take() {
                        sigs.push((s, d.to_string()));
                    }
                }
            }
            if sigs.is_empty() {
                sigs.push((format!("{}|isolated-violation", prop), truncate(&stdout, 400)));
            }
            let _ = std::fs::remove_file(&path);
            Ok(sigs)
        }
        other => Err(format!("child ended with {:?} ({}); stderr: {}", other, out.status, truncate(&String::from_utf8_lossy(&out.stderr), 300))),
    }
}

/// Run `f`, converting a panic into `Err(PanicInfo)`.
pub fn guarded<R>(f: impl FnOnce() -> R) -> Result<R, PanicInfo> {
    let outer = GUARD_DEPTH.with(|d| {
        let v = d.get();
        d.set(v + 1);
        v == 0
    });
    if outer {
        MY_BEAT.with(|b| b.fetch_add(1, Ordering::Relaxed));
    }
    let r = guarded_inner(f);
    GUARD_DEPTH.with(|d| d.set(d.get() - 1));
    if outer {
        MY_BEAT.with(|b| b.fetch_add(1, Ordering::Relaxed));
    }
    r
}

fn guarded_inner<R>(f: impl FnOnce() -> R) -> Result<R, PanicInfo> {
    LAST_PANIC.with(|p| *p.borrow_mut() = None);
    match panic::catch_unwind(AssertUnwindSafe(f)) {
        Ok(r) => Ok(r),
        Err(_) => {
            let (location, message) = LAST_PANIC
                .with(|p| p.borrow_mut().take())
                .unwrap_or(("?".into(), "?".into()));
            Err(PanicInfo { location, message })
        }
    }
}

// ---------------------------------------------------------------------------------------------
// watchdog: a monitor thread that notices a case running longer than the limit

struct WatchSlot {
    busy: bool,
    since: Instant,
    what: Vec<u8>,
}

static WATCH_SLOTS: Mutex<Vec<Arc<Mutex<WatchSlot>>>> = Mutex::new(Vec::new());

thread_local! {
    static MY_SLOT: Arc<Mutex<WatchSlot>> = {
        let s = Arc::new(Mutex::new(WatchSlot { busy: false, since: Instant::now(), what: Vec::new() }));
        WATCH_SLOTS.lock().unwrap().push(s.clone());
        s
    };
}

pub fn watch_begin(what: &[u8]) {
    MY_SLOT.with(|s| {
        let mut g = s.lock().unwrap();
        g.busy = true;
        g.since = Instant::now();
        g.what.clear();
        g.what.extend_from_slice(what);
    });
}

pub fn watch_end() {
    MY_SLOT.with(|s| s.lock().unwrap().busy = false);
}

/// Start the monitor; `on_hang` is called with the case bytes and must not return normally
/// (it writes the replay artefact and exits the process).
pub fn start_watchdog(limit: Duration, on_hang: impl Fn(&[u8], Duration) + Send + 'static) {
    std::thread::spawn(move || loop {
        std::thread::sleep(Duration::from_millis(500));
        let slots: Vec<_> = WATCH_SLOTS.lock().unwrap().clone();
        for s in slots {
            let g = s.lock().unwrap();
            if g.busy && g.since.elapsed() > limit {
                on_hang(&g.what, g.since.elapsed());
            }
        }
    });
}

// ---------------------------------------------------------------------------------------------
// tallies and context

#[derive(Default)]
pub struct Tally {
    pub evals: u64,
    pub nontrivial: u64,
    pub transitions: u64,
    pub outcomes: BTreeMap<String, u64>,
}

impl Tally {
    pub fn outcome(&mut self, k: &str) {
        if let Some(v) = self.outcomes.get_mut(k) {
            *v += 1;
        } else {
            self.outcomes.insert(k.to_string(), 1);
        }
    }
}

#[derive(Clone, Debug)]
pub struct Finding {
    pub sig: String,
    pub detail: String,
    pub case: Value,
}

struct SigStat {
    count: u64,
    first_detail: String,
    replays: Vec<String>,
    known: Option<String>,
}

#[derive(Clone, Debug)]
pub struct KnownFinding {
    pub property: String,
    pub signature: String,
    pub what: String,
    pub status: String,
}

pub struct Ctx {
    pub prop: String,
    pub tier: Tier,
    pub seed: i64,
    pub start: Instant,
    evals: AtomicU64,
    nontrivial: AtomicU64,
    transitions: AtomicU64,
    states: AtomicU64,
    outcomes: Mutex<BTreeMap<String, u64>>,
    spaces: Mutex<Vec<Value>>,
    samples: Mutex<Vec<Value>>,
    sigs: Mutex<BTreeMap<String, SigStat>>,
    known: Vec<KnownFinding>,
    not_exhaustive: AtomicBool,
    caps: Mutex<Vec<String>>,
    pub assumptions: Mutex<Vec<String>>,
    pub rule: Mutex<String>,
    pub extra: Mutex<BTreeMap<String, Value>>,
    replay_counter: AtomicU64,
    pub verif_root: String,
    /// 0 = first pass (process-wide logging off); 1 = second pass of the simple-mdns
    /// properties with a TRACE-level logger that formats every record
    pass: std::sync::atomic::AtomicU8,
}

/// A process-wide `log` logger that accepts every record and formats its arguments into a
/// sink: with the maximum level at TRACE every logging statement of the library is evaluated.
pub struct SinkLogger;
struct Sink;
impl std::fmt::Write for Sink {
    fn write_str(&mut self, s: &str) -> std::fmt::Result {
        std::hint::black_box(s.len());
        Ok(())
    }
}
impl log::Log for SinkLogger {
    fn enabled(&self, _: &log::Metadata) -> bool {
        true
    }
    fn log(&self, record: &log::Record) {
        let _ = std::fmt::Write::write_fmt(&mut Sink, *record.args());
    }
    fn flush(&self) {}
}
static SINK_LOGGER: SinkLogger = SinkLogger;

/// Install the sink logger (once) and set the process-wide maximum level.
pub fn set_logging(trace: bool) {
    let _ = log::set_logger(&SINK_LOGGER);
    log::set_max_level(if trace { log::LevelFilter::Trace } else { log::LevelFilter::Off });
}

const MAX_REPLAYS_PER_SIG: usize = 3;
const MAX_SAMPLES: usize = 12;

/// `./check` runs every property twice: first with the binary built with overflow checks and
/// debug assertions (what `cargo test` and dev builds give a user), then with a binary built
/// with the defaults of `--release` (no overflow checks, no debug assertions), quick bounds.
/// The second process has MC_PROFILE=release-defaults and merges its summary into the evidence
/// file the first one wrote.
pub fn secondary_profile() -> bool {
    std::env::var("MC_PROFILE").map(|v| v == "release-defaults").unwrap_or(false)
}

impl Ctx {
    pub fn new(prop: &str, tier: Tier) -> Ctx {
        let verif_root = std::env::var("VERIF_ROOT").unwrap_or_else(|_| "/verif".into());
        let seed = std::env::var("VERIF_SEED").ok().and_then(|s| s.parse().ok()).unwrap_or(0);
        let known = load_known(&verif_root);
        // stale replay artefacts of this property/tier are removed so that every file present
        // belongs to the current run
        if let Ok(rd) = std::fs::read_dir(format!("{}/replays", verif_root)) {
            let prefix = if secondary_profile() { format!("{}-{}-rel-", prop, tier.name()) } else { format!("{}-{}-", prop, tier.name()) };
            for e in rd.flatten() {
                // the first pass owns every artefact of the property, the second only its own
                if !secondary_profile() && e.file_name().to_string_lossy().starts_with(&format!("{}-{}-rel-", prop, tier.name())) {
                    let _ = std::fs::remove_file(e.path());
                    continue;
                }
                if e.file_name().to_string_lossy().starts_with(&prefix) {
                    let _ = std::fs::remove_file(e.path());
                }
            }
        }
        Ctx {
            prop: prop.to_string(),
            tier,
            seed,
            start: Instant::now(),
            evals: AtomicU64::new(0),
            nontrivial: AtomicU64::new(0),
            transitions: AtomicU64::new(0),
            states: AtomicU64::new(0),
            outcomes: Mutex::new(BTreeMap::new()),
            spaces: Mutex::new(Vec::new()),
            samples: Mutex::new(Vec::new()),
            sigs: Mutex::new(BTreeMap::new()),
            known,
            not_exhaustive: AtomicBool::new(false),
            caps: Mutex::new(Vec::new()),
            assumptions: Mutex::new(Vec::new()),
            rule: Mutex::new(String::new()),
            extra: Mutex::new(BTreeMap::new()),
            replay_counter: AtomicU64::new(0),
            verif_root,
            pass: std::sync::atomic::AtomicU8::new(0),
        }
    }

    pub fn merge(&self, t: Tally) {
        self.evals.fetch_add(t.evals, Ordering::Relaxed);
        self.nontrivial.fetch_add(t.nontrivial, Ordering::Relaxed);
        self.transitions.fetch_add(t.transitions, Ordering::Relaxed);
        if !t.outcomes.is_empty() {
            let mut o = self.outcomes.lock().unwrap();
            for (k, v) in t.outcomes {
                *o.entry(k).or_insert(0) += v;
            }
        }
    }

    pub fn add_states(&self, n: u64) {
        self.states.fetch_add(n, Ordering::Relaxed);
    }

    /// Record a declared space: its name, how many cases it contained, and its bound.
    pub fn space(&self, name: &str, cases: u64, bound: &str) {
        let name = if self.pass.load(Ordering::Relaxed) == 1 { format!("[second pass, process-wide TRACE logging on] {}", name) } else { name.to_string() };
        self.spaces.lock().unwrap().push(json!({"space": name, "cases": cases, "bound": bound}));
    }

    /// Start the second pass of a simple-mdns property: the same spaces under a TRACE-level
    /// logger (quick bounds in either tier).
    pub fn second_pass(&self) {
        self.pass.store(1, Ordering::Relaxed);
        set_logging(true);
    }

    /// The tier whose bounds the property modules use: the second pass runs at quick bounds.
    pub fn eff_tier(&self) -> Tier {
        if self.pass.load(Ordering::Relaxed) == 1 {
            Tier::Quick
        } else {
            self.tier
        }
    }

    pub fn sample(&self, v: Value) {
        let mut s = self.samples.lock().unwrap();
        if s.len() < MAX_SAMPLES {
            s.push(v);
        }
    }

    pub fn want_sample(&self) -> bool {
        self.samples.lock().unwrap().len() < MAX_SAMPLES
    }

    pub fn cap_hit(&self, what: &str) {
        self.not_exhaustive.store(true, Ordering::Relaxed);
        self.caps.lock().unwrap().push(what.to_string());
    }

    pub fn elapsed(&self) -> f64 {
        self.start.elapsed().as_secs_f64()
    }

    pub fn assume(&self, s: &str) {
        if self.assumptions.lock().unwrap().iter().any(|x| x == s) {
            return;
        }
        self.assumptions.lock().unwrap().push(s.to_string());
    }

    pub fn set_rule(&self, s: &str) {
        *self.rule.lock().unwrap() = s.to_string();
    }

    pub fn set_extra(&self, k: &str, v: Value) {
        self.extra.lock().unwrap().insert(k.to_string(), v);
    }

    fn known_for(&self, sig: &str) -> Option<String> {
        for k in &self.known {
            if k.property != self.prop || k.status != "known" {
                continue;
            }
            let m = if let Some(p) = k.signature.strip_suffix('*') {
                sig.starts_with(p)
            } else {
                sig == k.signature
            };
            if m {
                return Some(k.what.clone());
            }
        }
        None
    }

    /// Report a violation (thread-safe). Writes a replay artefact for the first few per signature.
    pub fn violation(&self, mut f: Finding) {
        if self.pass.load(Ordering::Relaxed) == 1 {
            f.detail = format!("[with a process-wide TRACE-level logger installed] {}", f.detail);
        }
        let mut sigs = self.sigs.lock().unwrap();
        let known = self.known_for(&f.sig);
        let e = sigs.entry(f.sig.clone()).or_insert_with(|| SigStat {
            count: 0,
            first_detail: f.detail.clone(),
            replays: Vec::new(),
            known,
        });
        e.count += 1;
        if e.replays.len() < MAX_REPLAYS_PER_SIG && e.known.is_none() {
            let n = self.replay_counter.fetch_add(1, Ordering::Relaxed);
            let dir = format!("{}/replays", self.verif_root);
            let _ = std::fs::create_dir_all(&dir);
            let path = format!("{}/{}-{}-{}{}.json", dir, self.prop, self.tier.name(), if secondary_profile() { "rel-" } else { "" }, n);
            let body = json!({
                "property": self.prop,
                "signature": f.sig,
                "detail": f.detail,
                "case": f.case,
                "build_profile": if secondary_profile() { "release-defaults" } else { "checked" },
            });
            if std::fs::write(&path, serde_json::to_string_pretty(&body).unwrap()).is_ok() {
                if e.replays.is_empty() {
                    println!("VIOLATION property={} replay={}", self.prop, path);
                    println!("  signature: {}", f.sig);
                    println!("  detail: {}", truncate(&f.detail, 600));
                }
                e.replays.push(path);
            }
        }
    }

    pub fn violations(&self, fs: Vec<Finding>) {
        for f in fs {
            self.violation(f);
        }
    }

    pub fn unlisted_violation_count(&self) -> u64 {
        self.sigs.lock().unwrap().values().filter(|s| s.known.is_none()).map(|s| s.count).sum()
    }

    /// Write the evidence file, print the summary, return the process exit code.
    pub fn finish(&self) -> i32 {
        let wall = self.start.elapsed().as_secs_f64();
        let sigs = self.sigs.lock().unwrap();
        let mut unlisted = 0u64;
        let mut listed = 0u64;
        let mut vio_summary = Vec::new();
        for (sig, st) in sigs.iter() {
            match &st.known {
                Some(what) => {
                    listed += st.count;
                    println!(
                        "KNOWN-FINDING: property={} {} [signature {} seen {} times]",
                        self.prop, what, sig, st.count
                    );
                }
                None => {
                    unlisted += st.count;
                }
            }
            vio_summary.push(json!({
                "signature": sig, "count": st.count, "known": st.known.is_some(),
                "first_detail": truncate(&st.first_detail, 400), "replays": st.replays,
            }));
        }
        let evals = self.evals.load(Ordering::Relaxed);
        let mut states = self.states.load(Ordering::Relaxed);
        if states == 0 {
            states = evals;
        }
        let mut transitions = self.transitions.load(Ordering::Relaxed);
        if transitions == 0 {
            transitions = evals;
        }
        let outcomes = self.outcomes.lock().unwrap();
        let exhaustive = !self.not_exhaustive.load(Ordering::Relaxed);
        let mut coverage = serde_json::Map::new();
        coverage.insert("states".into(), json!(states));
        coverage.insert("transitions".into(), json!(transitions));
        coverage.insert("traces_validated_against_impl".into(), json!(transitions));
        coverage.insert("evaluations".into(), json!(evals));
        coverage.insert("distinct_nontrivial".into(), json!(self.nontrivial.load(Ordering::Relaxed)));
        coverage.insert("rule".into(), json!(*self.rule.lock().unwrap()));
        coverage.insert("samples".into(), json!(*self.samples.lock().unwrap()));
        coverage.insert("exhaustive".into(), json!(exhaustive));
        coverage.insert("caps_hit".into(), json!(*self.caps.lock().unwrap()));
        coverage.insert("spaces".into(), json!(*self.spaces.lock().unwrap()));
        coverage.insert("distinct_outcomes".into(), json!(outcomes.len()));
        coverage.insert("outcomes".into(), json!(*outcomes));
        coverage.insert("violation_signatures".into(), json!(vio_summary));
        coverage.insert("known_findings_seen".into(), json!(listed));
        for (k, v) in self.extra.lock().unwrap().iter() {
            coverage.insert(k.clone(), v.clone());
        }
        let ev = json!({
            "property_id": self.prop,
            "tier": self.tier.name(),
            "seed": self.seed,
            "level": "model_checking",
            "coverage": Value::Object(coverage),
            "assumptions": *self.assumptions.lock().unwrap(),
            "wall_s": (wall * 1000.0).round() / 1000.0,
            "violations": unlisted,
        });
        let dir = format!("{}/evidence", self.verif_root);
        let _ = std::fs::create_dir_all(&dir);
        let path = format!("{}/{}.json", dir, self.prop);
        let ev = if secondary_profile() {
            // merge into the evidence of the first pass
            let mut first: Value = match std::fs::read_to_string(&path).ok().and_then(|s| serde_json::from_str(&s).ok()) {
                Some(v) => v,
                None => {
                    eprintln!("MACHINERY: the release-defaults pass found no evidence of the first pass at {}", path);
                    return 2;
                }
            };
            let summary = json!({
                "build_profile": "opt-level 3, overflow-checks off, debug-assertions off (the defaults of cargo build --release)",
                "bounds": "quick",
                "evaluations": evals,
                "states": states,
                "transitions": transitions,
                "distinct_nontrivial": self.nontrivial.load(Ordering::Relaxed),
                "distinct_outcomes": outcomes.len(),
                "outcomes": *outcomes,
                "exhaustive": exhaustive,
                "spaces": self.spaces.lock().unwrap().len(),
                "violation_signatures": vio_summary,
                "known_findings_seen": listed,
                "violations": unlisted,
                "wall_s": (wall * 1000.0).round() / 1000.0,
            });
            let w0 = first["wall_s"].as_f64().unwrap_or(0.0);
            let v0 = first["violations"].as_u64().unwrap_or(0);
            first["wall_s"] = json!(((w0 + wall) * 1000.0).round() / 1000.0);
            first["violations"] = json!(v0 + unlisted);
            if let Some(c) = first["coverage"].as_object_mut() {
                c.insert("release_defaults_pass".into(), summary);
            }
            first
        } else {
            ev
        };
        if let Err(e) = std::fs::write(&path, serde_json::to_string_pretty(&ev).unwrap()) {
            eprintln!("MACHINERY: cannot write evidence {}: {}", path, e);
            return 2;
        }
        println!(
            "{} {}{}: cases={} states={} transitions={} nontrivial={} outcomes={} exhaustive={} violations={} known={} wall={:.1}s",
            self.prop,
            self.tier.name(),
            if secondary_profile() { " (release-defaults build)" } else { "" },
            evals,
            states,
            transitions,
            self.nontrivial.load(Ordering::Relaxed),
            outcomes.len(),
            exhaustive,
            unlisted,
            listed,
            wall
        );
        if evals == 0 {
            eprintln!("MACHINERY: no cases were explored");
            return 2;
        }
        if unlisted > 0 {
            1
        } else {
            0
        }
    }
}

pub fn truncate(s: &str, n: usize) -> String {
    if s.len() <= n {
        s.to_string()
    } else {
        let mut e = n;
        while !s.is_char_boundary(e) {
            e -= 1;
        }
        format!("{}…(+{} bytes)", &s[..e], s.len() - e)
    }
}

fn load_known(root: &str) -> Vec<KnownFinding> {
    let path = format!("{}/known_findings.json", root);
    let Ok(s) = std::fs::read_to_string(&path) else {
        return Vec::new();
    };
    let v: Value = match serde_json::from_str(&s) {
        Ok(v) => v,
        Err(e) => {
            eprintln!("MACHINERY: known_findings.json does not parse: {}", e);
            std::process::exit(2);
        }
    };
    let mut out = Vec::new();
    if let Some(arr) = v.get("findings").and_then(|a| a.as_array()) {
        for e in arr {
            out.push(KnownFinding {
                property: e["property"].as_str().unwrap_or("").to_string(),
                signature: e["signature"].as_str().unwrap_or("").to_string(),
                what: e["what"].as_str().unwrap_or("").to_string(),
                status: e["status"].as_str().unwrap_or("known").to_string(),
            });
        }
    }
    out
}

// ---------------------------------------------------------------------------------------------
// helpers

pub fn hex(b: &[u8]) -> String {
    let mut s = String::with_capacity(b.len() * 2);
    for x in b {
        s.push_str(&format!("{:02x}", x));
    }
    s
}

pub fn unhex(s: &str) -> Vec<u8> {
    let s: Vec<u8> = s.bytes().filter(|c| c.is_ascii_hexdigit()).collect();
    s.chunks(2)
        .map(|c| u8::from_str_radix(std::str::from_utf8(c).unwrap(), 16).unwrap())
        .collect()
}

/// Run `f` over all shards in parallel, each with its own tally.
pub fn par_shards<S: Sync>(ctx: &Ctx, shards: &[S], f: impl Fn(&S, &mut Tally) + Sync) {
    use rayon::prelude::*;
    shards.par_iter().for_each(|s| {
        let mut t = Tally::default();
        f(s, &mut t);
        ctx.merge(t);
    });
}

/// Enumerate all strings of length exactly `len` over `alpha`, calling `f` on each (in place buffer).
pub fn for_each_string(alpha: &[u8], len: usize, buf: &mut Vec<u8>, f: &mut impl FnMut(&[u8])) {
    if len == 0 {
        f(buf);
        return;
    }
    for &a in alpha {
        buf.push(a);
        for_each_string(alpha, len - 1, buf, f);
        buf.pop();
    }
}

/// Enumerate all strings of length 0..=max over alpha (prefix tree, preorder).
pub fn for_each_string_upto(alpha: &[u8], max: usize, buf: &mut Vec<u8>, f: &mut impl FnMut(&[u8])) {
    f(buf);
    if max == 0 {
        return;
    }
    for &a in alpha {
        buf.push(a);
        for_each_string_upto(alpha, max - 1, buf, f);
        buf.pop();
    }
}
